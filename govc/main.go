package main

import (
	"encoding/json"
	"flag"
	"fmt"
	"os"
	"path/filepath"
	"regexp"
	"sort"
	"strings"
	"time"

	"golang.org/x/tools/go/ssa"
)

func contains(xs []string, x string) bool {
	for _, y := range xs {
		if y == x {
			return true
		}
	}
	return false
}

// stableName strips site/return ordinals so that unrelated edits do not rename obligations.
var ordRe = regexp.MustCompile(`@(ret)?\d+|#\d+$`)

func stableName(n string) string { return ordRe.ReplaceAllString(n, "") }

type knownFinding struct {
	Kind       string // known | fixed
	Property   string
	Obligation string
	Text       string
}

func loadKnown(path string) []knownFinding {
	b, err := os.ReadFile(path)
	if err != nil {
		return nil
	}
	var out []knownFinding
	for _, l := range strings.Split(string(b), "\n") {
		l = strings.TrimSpace(l)
		if l == "" || strings.HasPrefix(l, "#") {
			continue
		}
		k := knownFinding{}
		if strings.HasPrefix(l, "known:") {
			k.Kind = "known"
		} else if strings.HasPrefix(l, "fixed:") {
			k.Kind = "fixed"
		} else {
			continue
		}
		for _, f := range strings.Fields(l) {
			if strings.HasPrefix(f, "property=") {
				k.Property = f[9:]
			}
			if strings.HasPrefix(f, "obligation=") {
				k.Obligation = f[11:]
			}
		}
		k.Text = l
		out = append(out, k)
	}
	return out
}

func main() {
	if len(os.Args) < 2 {
		fmt.Println("usage: govc check|dump ...")
		os.Exit(2)
	}
	switch os.Args[1] {
	case "check":
		os.Exit(cmdCheck(os.Args[2:]))
	case "dump":
		os.Exit(cmdDump(os.Args[2:]))
	}
	fmt.Println("unknown command")
	os.Exit(2)
}

func cmdDump(args []string) int {
	fs := flag.NewFlagSet("dump", flag.ExitOnError)
	repo := fs.String("repo", "/repo", "")
	specs := fs.String("specs", "/verif/specs", "")
	key := fs.String("fn", "", "function key substring")
	ssaOnly := fs.Bool("ssa", false, "print SSA only")
	module := fs.String("module", "", "")
	fs.Parse(args)
	if *module != "" {
		modulePath = *module
	}
	cs, err := loadContracts(*repo, *specs)
	if err != nil {
		fmt.Println("ENGINE-ERROR contracts:", err)
		return 2
	}
	var pk []string
	for _, fc := range cs.Funcs {
		if !fc.Extern && !fc.IsIface && strings.Contains(fc.Key, *key) && !contains(pk, fc.PkgPath) {
			pk = append(pk, fc.PkgPath)
		}
	}
	L, err := loadPackages(*repo, cs, pk)
	if err != nil {
		fmt.Println("ENGINE-ERROR load:", err)
		return 2
	}
	for _, fc := range cs.Funcs {
		if fc.Extern || fc.IsIface || !strings.Contains(fc.Key, *key) {
			continue
		}
		fn := L.funcs[fc.Key]
		if fn == nil {
			fmt.Println("no function for", fc.Key)
			continue
		}
		if *ssaOnly {
			fn.WriteTo(os.Stdout)
			continue
		}
		r := verifyFunc(L, fc, fn)
		if r.Err != nil {
			fmt.Println(r.Err)
			continue
		}
		fmt.Println(strings.Join(r.Decls, "\n"))
		for i, l := range r.Script {
			for _, o := range r.Obligations {
				if o.Prefix == i {
					fmt.Printf("; >>> OBLIGATION %s [%s]: reach=%s cond=%s\n", o.Name, o.Text, o.Reach.s, o.Cond.s)
				}
			}
			fmt.Println(l)
		}
		for _, o := range r.Obligations {
			if o.Prefix == len(r.Script) {
				fmt.Printf("; >>> OBLIGATION %s [%s]: reach=%s cond=%s\n", o.Name, o.Text, o.Reach.s, o.Cond.s)
			}
		}
	}
	return 0
}

type evidence struct {
	PropertyID  string                 `json:"property_id"`
	Tier        string                 `json:"tier"`
	Seed        int                    `json:"seed"`
	Level       string                 `json:"level"`
	Coverage    map[string]interface{} `json:"coverage"`
	Assumptions []string               `json:"assumptions"`
	WallS       float64                `json:"wall_s"`
	Violations  int                    `json:"violations"`
}

func cmdCheck(args []string) int {
	fs := flag.NewFlagSet("check", flag.ExitOnError)
	repo := fs.String("repo", "/repo", "")
	verif := fs.String("verif", "/verif", "")
	prop := fs.String("prop", "", "property id")
	tier := fs.String("tier", "quick", "")
	timeout := fs.Int("timeout", 0, "per-obligation solver timeout (s)")
	par := fs.Int("par", 5, "obligations in flight")
	writeBaseline := fs.Bool("write-baseline", false, "")
	verbose := fs.Bool("v", false, "")
	noEvidence := fs.Bool("no-evidence", false, "")
	noRetry := fs.Bool("no-retry", false, "self-test runs on changed trees: do not retry undecided obligations with a longer timeout")
	module := fs.String("module", "", "module path (default: martian)")
	replaysFlag := fs.String("replays", "", "directory for replay files (default <verif>/replays)")
	only := fs.String("only", "", "debug: verify only functions whose key contains this substring")
	listAll := fs.Bool("list", false, "print every obligation with its status")
	fs.Parse(args)
	if *module != "" {
		modulePath = *module
	}
	if *listAll {
		*verbose = true
	}
	start := time.Now()
	if *timeout == 0 {
		*timeout = 10
		if *tier == "thorough" {
			*timeout = 60
		}
	}
	seed := 0
	fmt.Sscanf(os.Getenv("VERIF_SEED"), "%d", &seed)
	cs, err := loadContracts(*repo, filepath.Join(*verif, "specs"))
	if err != nil {
		fmt.Println("ENGINE-ERROR contracts:", err)
		return 2
	}
	serves := func(fc *FuncContract) bool {
		if contains(fc.Serves, *prop) {
			return true
		}
		for _, c := range append(append([]*Clause{}, fc.Requires...), fc.Ensures...) {
			if contains(c.Props, *prop) {
				return true
			}
		}
		for _, g := range fc.Ghosts {
			if g.Clause != nil && contains(g.Clause.Props, *prop) {
				return true
			}
		}
		return false
	}
	var fcs []*FuncContract
	var pk []string
	for _, fc := range cs.Funcs {
		if fc.Extern || fc.IsIface || fc.Trusted || !serves(fc) {
			continue
		}
		if *only != "" && !strings.Contains(fc.Key, *only) {
			continue
		}
		fcs = append(fcs, fc)
		if !contains(pk, fc.PkgPath) {
			pk = append(pk, fc.PkgPath)
		}
	}
	sort.Slice(fcs, func(i, j int) bool { return fcs[i].Key < fcs[j].Key })
	// packages whose contract files declare predicates / ghost state are loaded from source as well, so that their
	// unexported identifiers resolve in specs evaluated from other packages
	for _, p := range cs.Preds {
		if p.PkgPath != "" && !contains(pk, p.PkgPath) && len(fcs) > 0 && *module == "" {
			pk = append(pk, p.PkgPath)
		}
	}
	sort.Strings(pk)
	if len(fcs) == 0 {
		fmt.Printf("ENGINE-ERROR no-contracts: no function under contract serves %s\n", *prop)
		return 2
	}
	L, err := loadPackages(*repo, cs, pk)
	if err != nil {
		fmt.Println("ENGINE-ERROR load:", err)
		return 2
	}
	var frs []*FuncResult
	engineErrors := 0
	type fucInfo struct {
		Key, File, Hash string
		Obligations     int
	}
	var fucs []fucInfo
	for _, fc := range fcs {
		fn := L.funcs[fc.Key]
		if fn == nil {
			fn = L.wrappers[fc.Key]
		}
		if fn == nil {
			fmt.Printf("ENGINE-ERROR stale-contract: no function %s in the tree (contract at %s:%d)\n", fc.Key, relPath(fc.File), fc.Line)
			engineErrors++
			continue
		}
		r := verifyFunc(L, fc, fn)
		if r.Err != nil {
			fmt.Println(r.Err)
			engineErrors++
			continue
		}
		for _, w := range r.Stale {
			// the function's other obligations are still generated and checked: a change that removes an anchored call
			// is reported through the obligations it breaks, and the stale anchor is reported as well
			fmt.Printf("ENGINE-ERROR stale-contract: %s [function %s]\n", w, shortKey(fc.Key))
			engineErrors++
		}
		r.File, r.BodyHash = L.bodyHash(fn)
		frs = append(frs, r)
	}
	// lemmas of packages involved
	// functions that could not be brought under their contract give no verdict (exit 2 unless another function
	// reports a violation); the remaining functions are checked all the same
	if engineErrors > 0 && len(frs) == 0 {
		return 2
	}
	pick := func(o *Obligation) bool {
		if *tier != "thorough" && o.Kind == "vacuity" && strings.Contains(o.Name, "#vacuity:ret") {
			return false // reachability of every return is a thorough-tier guard
		}
		return contains(o.Props, *prop)
	}
	workdir, err := os.MkdirTemp("", "govc-"+*prop+"-")
	if err != nil {
		fmt.Println("ENGINE-ERROR tmp:", err)
		return 2
	}
	if os.Getenv("GOVC_KEEP") == "" {
		defer os.RemoveAll(workdir)
	} else {
		fmt.Println("workdir:", workdir)
	}
	solveAll(workdir, frs, pick, *timeout, *par)
	known := loadKnown(filepath.Join(*verif, "known_findings.txt"))
	isKnown := func(o *Obligation) *knownFinding {
		for i := range known {
			k := &known[i]
			if k.Kind == "known" && k.Property == *prop && k.Obligation == stableName(o.Name) {
				return k
			}
		}
		return nil
	}
	// second chance with a three times longer timeout for whatever is still undecided (solver run-time varies with
	// load; an undecided obligation must not become an alarm because the machine was busy)
	// (obligations recorded as known findings are expected to fail and are not retried)
	retry := func(o *Obligation) bool {
		return pick(o) && o.Expect == "unsat" && o.Status == "undecided" && isKnown(o) == nil
	}
	nretry := 0
	for _, fr := range frs {
		for _, o := range fr.Obligations {
			if retry(o) {
				nretry++
			}
		}
	}
	if nretry > 0 && nretry <= 12 && !*noRetry {
		solveAll(workdir, frs, retry, *timeout*3, 3)
	}

	// baseline
	basePath := filepath.Join(*verif, "baseline", *prop+".json")
	var baseline []string
	if b, err := os.ReadFile(basePath); err == nil {
		json.Unmarshal(b, &baseline)
	}

	total, discharged, vacTotal, vacOK := 0, 0, 0, 0
	byKind := map[string]int{}
	bySolver := map[string]int{}
	solverSecs := 0.0
	var violations []*Obligation
	var knownHit []string
	knownSeen := map[string]bool{}
	var vacuityProblems []string
	var samples []map[string]interface{}
	var slow []*Obligation
	assumed := map[string]bool{}
	abstr := map[string]bool{}
	names := map[string]bool{}
	for _, fr := range frs {
		n := 0
		for _, o := range fr.Obligations {
			if !pick(o) {
				continue
			}
			n++
			solverSecs += o.Seconds
			if o.Kind == "vacuity" {
				vacTotal++
				switch o.Status {
				case "discharged":
					vacOK++
				case "refuted":
					vacuityProblems = append(vacuityProblems, o.Name+" ("+o.Text+")")
				}
				continue
			}
			names[stableName(o.Name)] = true
			if k := isKnown(o); k != nil && o.Status != "discharged" {
				if !knownSeen[k.Text] {
					knownSeen[k.Text] = true
					knownHit = append(knownHit, k.Text)
				}
				continue
			}
			total++
			byKind[o.Kind]++
			if o.Status == "discharged" {
				discharged++
				bySolver[o.Solver]++
			} else {
				violations = append(violations, o)
			}
			slow = append(slow, o)
			if *verbose {
				fmt.Printf("  %-11s %-8s %6.2fs %s\n", o.Status, o.Solver, o.Seconds, o.Name)
			}
		}
		fucs = append(fucs, fucInfo{shortKey(fr.Key), fr.File, fr.BodyHash, n})
		for _, a := range fr.Assumed {
			assumed[a] = true
		}
		for _, a := range fr.Abstraction {
			abstr[a] = true
		}
	}
	sort.Slice(slow, func(i, j int) bool { return slow[i].Seconds > slow[j].Seconds })
	var slowest []string
	for i := 0; i < len(slow) && i < 5; i++ {
		slowest = append(slowest, fmt.Sprintf("%s %.2fs (%s)", slow[i].Name, slow[i].Seconds, slow[i].Solver))
	}
	cnt := 0
	for _, fr := range frs {
		for _, o := range fr.Obligations {
			if pick(o) && o.Kind != "vacuity" && cnt < 6 && (cnt == 0 || o.Kind != "safe" || cnt%2 == 0) {
				samples = append(samples, map[string]interface{}{"obligation": o.Name, "kind": o.Kind, "clause": o.Text, "at": o.Where,
					"status": o.Status, "solver": o.Solver, "vc_prefix_lines": o.Prefix})
				cnt++
			}
		}
	}
	if *writeBaseline {
		var ns []string
		for n := range names {
			ns = append(ns, n)
		}
		sort.Strings(ns)
		os.MkdirAll(filepath.Dir(basePath), 0o755)
		b, _ := json.MarshalIndent(ns, "", " ")
		os.WriteFile(basePath, append(b, '\n'), 0o644)
		baseline = ns
	}
	var missing []string
	for _, n := range baseline {
		if !names[n] {
			missing = append(missing, n)
		}
	}

	exit := 0
	for _, k := range knownHit {
		fmt.Printf("KNOWN-FINDING: %s\n", strings.TrimSpace(strings.TrimPrefix(k, "known:")))
	}
	replayDir := filepath.Join(*verif, "replays", *prop)
	if *replaysFlag != "" {
		replayDir = filepath.Join(*replaysFlag, *prop)
	}
	for _, o := range violations {
		os.MkdirAll(replayDir, 0o755)
		rp := filepath.Join(replayDir, sanitize(stableName(o.Name))+".json")
		q := ""
		if o.Query != "" {
			if b, err := os.ReadFile(o.Query); err == nil && len(b) < 2<<20 {
				q = string(b)
			}
		}
		rec := map[string]interface{}{"property": *prop, "obligation": o.Name, "kind": o.Kind, "clause": o.Text, "at": o.Where,
			"status": o.Status, "solver": o.Solver, "solver_output_or_model": o.Model, "function": o.Fn,
			"reach": o.Reach.s, "condition": o.Cond.s, "query_smt2": q,
			"note": "obligation generated from /repo's current source by govc; it is discharged on the unchanged tree"}
		confirmed := false
		// with a counter-model, or without one (undecided): the harness of the function, if any, tries the model's
		// values and the canonical witnesses of the failed clause on the real code
		confirmed = tryReplay(*verif, *repo, *prop, o, rec)
		b, _ := json.MarshalIndent(rec, "", " ")
		os.WriteFile(rp, append(b, '\n'), 0o644)
		suffix := " no-failing-input-found"
		if confirmed {
			suffix = ""
		}
		fmt.Printf("VIOLATION property=%s replay=%s obligation=%s status=%s%s\n", *prop, rp, o.Name, o.Status, suffix)
		exit = 1
	}
	if len(vacuityProblems) > 0 {
		for _, v := range vacuityProblems {
			if strings.Contains(v, "vacuity:ret") {
				fmt.Printf("WARNING unreachable-return: %s\n", v)
			} else {
				fmt.Printf("ENGINE-ERROR vacuous: %s\n", v)
				if exit == 0 {
					exit = 2
				}
			}
		}
	}
	if len(missing) > 0 {
		fmt.Printf("ENGINE-ERROR stale-baseline: obligations of the committed baseline were not generated: %s\n", strings.Join(missing, ", "))
		if exit == 0 {
			exit = 2
		}
	}
	if engineErrors > 0 && exit == 0 {
		exit = 2
	}
	if total == 0 && exit == 0 {
		fmt.Printf("ENGINE-ERROR vacuous: zero obligations for %s\n", *prop)
		exit = 2
	}
	wall := time.Since(start).Seconds()
	if !*noEvidence {
		ev := evidence{PropertyID: *prop, Tier: *tier, Seed: seed, Level: "proof", WallS: wall, Violations: len(violations)}
		var fl []map[string]interface{}
		for _, f := range fucs {
			fl = append(fl, map[string]interface{}{"function": f.Key, "file": f.File, "body_sha256_8": f.Hash, "obligations": f.Obligations})
		}
		meta := loadPropMeta(*verif, *prop)
		ev.Coverage = map[string]interface{}{
			"obligations": total, "discharged": discharged,
			"checker_cmd": fmt.Sprintf("govc check -prop %s -tier %s (VCs from go/ssa of /repo's working tree; solvers raced: z3 4.8.12, z3-new 5.1.0, cvc5 1.0.x)", *prop, *tier),
			"trusted_base": []string{
				"govc VC generator (/verif/govc): translation of go/ssa to SMT as described in DESIGN.md section 2",
				"go/types and go/ssa (x/tools v0.29.0)", "SMT solvers z3, z3-new, cvc5 (an unsat answer from any one is accepted)",
				"sequential semantics: goroutines, channels and locks are not interleaved", "int is 64 bit; integers are mathematical with explicit wrap at every Go arithmetic operation",
				"assumed contracts on dependencies listed under assumptions"},
			"functions_under_contract": fl,
			"by_kind":                  byKind, "by_solver": bySolver, "solver_seconds": solverSecs,
			"slowest":                  slowest,
			"vacuity_guards":           map[string]interface{}{"checked": vacTotal, "satisfiable": vacOK, "problems": vacuityProblems},
			"known_findings_matched":   knownHit,
			"abstractions_used":        sortedKeys(abstr),
			"samples":                  samples,
			"undecided_clauses":        meta.Undecided,
			"bounded":                  meta.Bounded,
			"decides":                  meta.Decides,
			"per_obligation_timeout_s": *timeout,
			"baseline_names":           len(baseline),
		}
		ev.Assumptions = sortedKeys(assumed)
		if ev.Assumptions == nil {
			ev.Assumptions = []string{}
		}
		os.MkdirAll(filepath.Join(*verif, "evidence"), 0o755)
		b, _ := json.MarshalIndent(ev, "", " ")
		os.WriteFile(filepath.Join(*verif, "evidence", *prop+".json"), append(b, '\n'), 0o644)
	}
	fmt.Printf("%s: %d obligations, %d discharged, %d vacuity guards (%d ok), %d known findings, %.1fs wall, %.1fs solver\n",
		*prop, total, discharged, vacTotal, vacOK, len(knownHit), wall, solverSecs)
	return exit
}

type propMeta struct {
	Decides   []string `json:"decides"`
	Undecided []string `json:"undecided_clauses"`
	Bounded   []string `json:"bounded"`
}

// loadPropMeta reads /verif/props/<id>.json: the sentences of the property the obligations cover and those they do not.
func loadPropMeta(verif, prop string) propMeta {
	var m propMeta
	if b, err := os.ReadFile(filepath.Join(verif, "props", prop+".json")); err == nil {
		json.Unmarshal(b, &m)
	}
	if m.Undecided == nil {
		m.Undecided = []string{}
	}
	if m.Bounded == nil {
		m.Bounded = []string{}
	}
	if m.Decides == nil {
		m.Decides = []string{}
	}
	return m
}

var _ = ssa.GlobalDebug
