package main

// Top-level verification of one function under contract, plus spec helpers bound to frames.

import (
	"fmt"
	"go/types"
	"strings"

	"golang.org/x/tools/go/ssa"
)

func (fr *Frame) specEnv(cur, old *State, at *ssa.BasicBlock, over map[*ssa.Phi]T) *Env {
	fc := fr.contractForLoops()
	pkgPath := ""
	if fc != nil {
		pkgPath = fc.PkgPath
	} else if fr.ex.fc != nil {
		pkgPath = fr.ex.fc.PkgPath
	}
	return &Env{ex: fr.ex, fr: fr, cur: cur, old: old, vars: map[string]Val{}, pkgPath: pkgPath, callerPkg: fr.ex.pkg, atBlock: at, phiOver: over}
}

// lookupLocal resolves a source-level local variable name at the head of block `at`.
func (fr *Frame) lookupLocal(name string, at *ssa.BasicBlock, atInstr ssa.Instruction, over map[*ssa.Phi]T, cur *State) (Val, bool) {
	ex := fr.ex
	phiVal := func(phi *ssa.Phi) T {
		if t, ok := over[phi]; ok {
			return t
		}
		return fr.vals[phi]
	}
	fromRef := func(d *ssa.DebugRef) (Val, bool) {
		o := d.Object()
		if o == nil || o.Name() != name {
			return Val{}, false
		}
		if v, isVar := o.(*types.Var); !isVar || v.IsField() {
			return Val{}, false // a selector x.f is recorded under the field object f: that is not a local named f
		}
		if d.IsAddr {
			if _, ok := fr.vals[d.X]; !ok {
				if _, ok2 := fr.lvals[d.X]; !ok2 {
					return Val{}, false
				}
			}
			lv := fr.lvOf(d.X)
			return Val{t: ex.load(cur, lv), typ: o.Type()}, true
		}
		if phi, ok := d.X.(*ssa.Phi); ok {
			return Val{t: phiVal(phi), typ: o.Type()}, true
		}
		if _, isC := d.X.(*ssa.Const); isC {
			return Val{t: fr.val(d.X), typ: o.Type()}, true
		}
		t, ok := fr.vals[d.X]
		if !ok {
			if _, isP := d.X.(*ssa.Parameter); isP {
				t, ok = fr.val(d.X), true
			}
		}
		if !ok {
			return Val{}, false
		}
		return Val{t: t, typ: o.Type()}, true
	}
	// a variable that lives in a cell (captured by a closure, or its address taken): its value is what the cell holds
	var cell *ssa.Alloc
	for b := at; b != nil; b = b.Idom() {
		for _, in := range b.Instrs {
			if b == at && atInstr != nil && in == atInstr {
				break
			}
			if a, ok := in.(*ssa.Alloc); ok && a.Comment == name {
				if _, done := fr.vals[a]; done {
					cell = a
				}
			}
		}
		if cell != nil {
			break
		}
	}
	if cell != nil {
		lv := fr.lvOf(cell)
		return Val{t: ex.load(cur, lv), typ: lv.typ}, true
	}
	for b := at; b != nil; b = b.Idom() {
		instrs := b.Instrs
		if b == at {
			// only the phis of the loop header itself, or the instructions before the anchor
			n := 0
			for n < len(instrs) {
				if atInstr != nil {
					if instrs[n] == atInstr {
						break
					}
				} else if _, ok := instrs[n].(*ssa.Phi); !ok {
					break
				}
				n++
			}
			instrs = instrs[:n]
		}
		for i := len(instrs) - 1; i >= 0; i-- {
			switch x := instrs[i].(type) {
			case *ssa.Phi:
				if x.Comment == name {
					return Val{t: phiVal(x), typ: x.Type()}, true
				}
			case *ssa.DebugRef:
				if v, ok := fromRef(x); ok {
					return v, true
				}
			}
		}
	}
	// a variable captured by reference in a closure: free variable (pointer)
	for i, fv := range fr.fn.FreeVars {
		if fv.Name() == name {
			_ = i
			lv := fr.lvOf(fv)
			return Val{t: ex.load(cur, lv), typ: lv.typ}, true
		}
	}
	for _, p := range fr.fn.Params {
		if p.Name() == name {
			if lv, ok := fr.lvals[p]; ok {
				return Val{lv: lv, t: fr.escapeLV(p, lv), typ: p.Type()}, true
			}
			return Val{t: fr.val(p), typ: p.Type()}, true
		}
	}
	if fr.parent != nil {
		return Val{}, false
	}
	return Val{}, false
}

// ghostAt runs anchored ghost clauses (`at call N of NAME before|after assert|assume|set ...`).
func (fr *Frame) ghostAt(kind string, ord int, name, when string, reach T, st *State, bind map[string]Val) {
	fc := fr.contractForLoops()
	if fc == nil {
		return
	}
	ex := fr.ex
	for _, g := range fc.Ghosts {
		if (g.Ordinal != ord && g.Ordinal != -1) || g.When != when {
			continue
		}
		if g.Anchor != kind {
			continue // a method that happens to be called send/recv/return is not a channel or return anchor
		}
		if !(g.Callee == name || (kind != "call" && g.Callee == kind)) {
			continue
		}
		if ex.ghostUsed != nil {
			ex.ghostUsed[g] = true
		}
		env := fr.specEnv(st, fr.entry, fr.curBlock, nil)
		env.atInstr = fr.curInstr
		// only positional names are bound at an anchor (arg0.., result.., self, sent, ch): the callee's own parameter
		// names would shadow the locals of the function under contract
		for k, v := range bind {
			if strings.HasPrefix(k, "arg") || strings.HasPrefix(k, "result") || k == "self" || k == "sent" || k == "ch" {
				env.vars[k] = v
			} else if _, isLocal := fr.lookupLocal(k, fr.curBlock, fr.curInstr, nil, st); !isLocal {
				if _, isParam := fr.params[k]; !isParam {
					env.vars[k] = v
				}
			}
		}
		switch g.Kind {
		case "assert":
			c := env.evalBool(g.Clause)
			ex.oblige(fmt.Sprintf("at:%s@%d.%s", name, ord, clauseName(g.Clause, 0)), "assert", g.Clause.Props, reach, c, g.Clause.where(), g.Clause.Text)
			// a proved assertion is available to everything that follows (cut)
			ex.assumeKind("lemma", reach, c)
		case "assume":
			ex.assume(reach, env.evalBool(g.Clause))
			ex.assumed["anchored assumption at "+relPath(g.Clause.where())+": "+g.Clause.Text] = true
		case "havoc":
			// the effect of a library call on a local of the function under contract, abstracted (loses information only)
			env.clause = g.Clause
			env.havocItem(g.Clause.Text, st, reach)
			ex.assumed["effect of the call at the anchor is abstracted as: havoc "+g.Clause.Text+" ("+relPath(g.Clause.where())+")"] = true
		case "set":
			env.clause = g.Clause
			if g.Clause.Expr == nil {
				e, err := parseSpecExpr(g.Clause.Text)
				if err != nil {
					env.fail("%v", err)
				}
				g.Clause.Expr = e
			}
			v := env.eval(g.Clause.Expr)
			env.assignGhost(g.Target, v, st)
		}
	}
}

// assignGhost: ghost variable or ghost field assignment.
func (env *Env) assignGhost(target string, v Val, st *State) {
	ex := env.ex
	e, err := parseSpecExpr(target)
	if err != nil {
		env.fail("%v", err)
	}
	switch e.Kind {
	case "ident":
		g, ok := ex.L.contracts.GhostVars[e.Name]
		if !ok {
			env.fail("set: %s is not a ghost variable", e.Name)
		}
		env.ghostVar(g)
		ex.set(st, "G$"+g.Name, v.t)
	case "sel":
		g, ok := ex.L.contracts.GhostFields[e.Name]
		if !ok {
			env.fail("set: %s is not a ghost field", e.Name)
		}
		comp, _ := env.ghostFieldComp(g)
		x := env.eval(e.X)
		ex.set(st, comp, store(ex.get(st, comp), env.refOf(x), v.t))
	default:
		env.fail("set: bad target %s", target)
	}
}

// selectHook: obligations about select statements are expressed with `at` clauses; nothing automatic.
func (fr *Frame) selectHook(x *ssa.Select, idx T, reach T, st *State) {
	// `at select N before assert waitsOn(ch)`: the channels the select waits to receive from are bound as a set
	var chans []T
	for _, s := range x.States {
		if s.Dir == types.RecvOnly {
			chans = append(chans, fr.val(s.Chan))
		}
	}
	fr.selWaits = chans
	fr.ghostAt("select", fr.selOrd[x], "select", "before", reach, st, map[string]Val{"arg0": {t: intLit(int64(len(x.States))), typ: types.Typ[types.Int]}})
	fr.selWaits = nil
}

// ---------------------------------------------------------------------------

type FuncResult struct {
	Key         string
	File        string
	BodyHash    string
	Obligations []*Obligation
	Decls       []string
	Script      []string
	Assumed     []string
	Abstraction []string
	Stale       []string // anchors of the contract that matched no instruction
	Err         error
}

// verifyFunc generates all obligations of one function under contract.
func verifyFunc(L *Loaded, fc *FuncContract, fn *ssa.Function) (res *FuncResult) {
	res = &FuncResult{Key: fc.Key}
	defer func() {
		if r := recover(); r != nil {
			if ee, ok := r.(*EngineError); ok {
				res.Err = fmt.Errorf("%s [function %s]", ee.Error(), shortKey(fc.Key))
				return
			}
			panic(r)
		}
	}()
	tpkg := (*types.Package)(nil)
	if fn.Pkg != nil {
		tpkg = fn.Pkg.Pkg
	} else if o := fn.Object(); o != nil {
		tpkg = o.Pkg() // synthetic pointer-receiver wrapper
	}
	ex := newExec(L, fc, tpkg)
	ex.fnKey = fc.Key
	ex.ghostUsed = map[*GhostAt]bool{}
	ex.escaped = map[string]*LV{}
	fr := ex.newFrame(fn, nil)
	fr.top = true
	st := newState()
	fr.entry = newState()
	reach := tTrue
	if fn.Synthetic == "package initializer" {
		// the initialiser runs once: its guard variable is false on entry
		ex.inInit = true
		if g, ok := fn.Pkg.Members["init$guard"].(*ssa.Global); ok {
			lv := ex.ptrLV(ex.globalRef(g), types.Typ[types.Bool])
			ex.assume(tTrue, not(ex.load(st, lv)))
		}
	}
	// parameters
	for _, p := range fn.Params {
		v := ex.fresh("p_"+p.Name(), ex.sorts.sortOf(p.Type()))
		ex.assumeWellTyped(v, p.Type(), tTrue, st)
		fr.vals[p] = v
		fr.params[p.Name()] = Val{t: v, typ: p.Type()}
	}
	if fn.Signature.Recv() != nil && len(fn.Params) > 0 {
		fr.params["self"] = fr.params[fn.Params[0].Name()]
	}
	for _, fv := range fn.FreeVars {
		v := ex.fresh("fv_"+fv.Name(), "Ref")
		ex.assume(tTrue, and(not(eq(v, tNil)), sel(ex.get(st, ex.allocComp()), v)))
		fr.vals[fv] = v
	}
	// axioms of the package
	for _, ax := range L.contracts.Axioms {
		env := &Env{ex: ex, fr: fr, cur: st, old: st, vars: map[string]Val{}, pkgPath: L.contracts.AxiomPkg[ax], callerPkg: ex.pkg}
		if L.contracts.AxiomPkg[ax] != "" && L.contracts.AxiomPkg[ax] != fc.PkgPath {
			continue
		}
		ex.assume(tTrue, env.evalBool(ax))
		ex.assumed["axiom "+clauseName(ax, 0)+" ("+relPath(ax.where())+"): "+ax.Text] = true
	}
	// requires
	env := fr.specEnv(st, fr.entry, nil, nil)
	for _, r := range fc.Requires {
		ex.assumeKind("pre", tTrue, env.evalBool(r))
	}
	// ghost code at entry
	fr.curBlock = fn.Blocks[0]
	fr.ghostAt("entry", 0, "entry", "before", tTrue, st, map[string]Val{})
	ex.cover("vacuity:pre", tTrue, tTrue, relPath(fc.File)+fmt.Sprintf(":%d", fc.Line), "precondition, type invariants and axioms are satisfiable")
	fr.runRegion(nil, fn.Blocks[0], reach, st, false)
	// returns
	sig := fn.Signature
	for _, r := range fr.rets {
		ord := fr.retOrd[r.instr]
		where := ex.pos(instrPos(r.instr))
		penv := fr.specEnv(r.st, fr.entry, nil, nil)
		for i, t := range r.results {
			v := Val{t: t, typ: sig.Results().At(i).Type()}
			penv.vars[fmt.Sprintf("result%d", i)] = v
			if n := sig.Results().At(i).Name(); n != "" && n != "_" {
				penv.vars[n] = v
			}
			if len(r.results) == 1 {
				penv.vars["result"] = v
			}
		}
		fr.curBlock = r.instr.Block()
		fr.ghostAtReturn(ord, r, penv)
		for i, e := range fc.Ensures {
			cond := penv.evalBool(e)
			ex.oblige(fmt.Sprintf("post:%s@ret%d", clauseName(e, i), ord), "post", e.Props, r.reach, cond, where, e.Text)
		}
		if len(fc.Ensures) > 0 || len(fc.Modifies) > 0 {
			ex.cover(fmt.Sprintf("vacuity:ret%d", ord), r.reach, tTrue, where, "return is reachable under the precondition")
		}
		if len(fc.Modifies) > 0 && !fc.NoFrame {
			fr.frameCheck(fc, r, where, ord)
		}
		if fc.NoFrame {
			ex.assumed["modifies clause of "+shortKey(fc.Key)+" is not checked against its body (noframe): callers trust it"] = true
		}
	}
	// an anchor that matched no instruction checks nothing: the contract is stale (or was written against a name the
	// callee does not have), which must not pass silently
	for _, g := range fc.Ghosts {
		if g.Callee == "return" || g.Ordinal == -1 || ex.ghostUsed[g] {
			continue
		}
		res.Stale = append(res.Stale, fmt.Sprintf("%s: anchor `at %s %d of %s` matches no instruction", relPath(g.Clause.where()), g.Anchor, g.Ordinal, g.Callee))
	}
	res.Obligations = ex.obls
	res.Decls = ex.finalDecls()
	res.Script = ex.script
	res.Assumed = sortedKeys(ex.assumed)
	res.Abstraction = sortedKeys(ex.abstractions)
	return res
}

func (fr *Frame) ghostAtReturn(ord int, r retRec, penv *Env) {
	fc := fr.ex.fc
	for _, g := range fc.Ghosts {
		if g.Callee != "return" || (g.Ordinal != ord && g.Ordinal != -1) || g.Kind != "assert" {
			continue
		}
		// locals are resolved at the return instruction (deferred calls have run)
		penv.atBlock, penv.atInstr = r.instr.Block(), r.instr
		c := penv.evalBool(g.Clause)
		penv.atBlock, penv.atInstr = nil, nil
		fr.ex.oblige(fmt.Sprintf("at:return@%d.%s", ord, clauseName(g.Clause, 0)), "assert", g.Clause.Props, r.reach, c, g.Clause.where(), g.Clause.Text)
	}
}

// frameCheck: everything not named by a modifies clause is unchanged at return (for objects allocated at entry).
func (fr *Frame) frameCheck(fc *FuncContract, r retRec, where string, ord int) {
	ex := fr.ex
	// allowed: run the havoc on a copy of the ENTRY state and see which components / indices it touches
	allowed := newState()
	ex.dry++
	ex.inlineDefs = true
	snap := len(ex.script)
	for _, m := range fc.Modifies {
		env := fr.specEnv(fr.entry, fr.entry, nil, nil)
		env.havocItem(m, allowed, tTrue)
	}
	ex.dry--
	ex.inlineDefs = false
	ex.script = ex.script[:snap]
	keys := map[string]bool{}
	for k := range r.st.m {
		keys[k] = true
	}
	for _, k := range sortedKeys(keys) {
		if strings.HasPrefix(k, "Armed$") || strings.HasPrefix(k, "Visited$") || strings.HasPrefix(k, "Released$") || k == "Alloc" {
			continue
		}
		final := ex.get(r.st, k)
		init := ex.get(fr.entry, k)
		if final.s == init.s {
			continue
		}
		srt := ex.comps[k]
		allow, has := allowed.m[k]
		if !strings.HasPrefix(srt, "(Array Ref") {
			if has {
				continue // whole ghost variable may change
			}
			ex.oblige(fmt.Sprintf("frame:%s@ret%d", k, ord), "frame", nil, r.reach, eq(final, init), where, "not in modifies: "+k)
			continue
		}
		// pointwise: o allocated at entry and not touched by the allowed havoc => unchanged
		o := ex.fresh("frame_o", "Ref")
		touched := tFalse
		if has {
			if isAtom(allow.s) && !strings.Contains(allow.s, "$init") && strings.HasPrefix(allow.s, sanitize(k)) {
				continue // whole component havoced: anything goes
			}
			touched = touchedAt(allow.s, o)
			if touched.s == "?" {
				continue
			}
		}
		cond := implies(and(sel(ex.get(fr.entry, ex.allocComp()), o), not(touched)), eq(sel(final, o), sel(init, o)))
		ex.oblige(fmt.Sprintf("frame:%s@ret%d", k, ord), "frame", nil, r.reach, cond, where, "objects not named by modifies keep "+k)
	}
}

// touchedAt: given the term the allowed-havoc produced for a component, the condition that index o was written.
// The havoc only builds (store (store X$init a v) b w) chains, possibly under define-funs that were discarded, so
// the analysis is done syntactically on the recorded stores.
func touchedAt(term string, o T) T {
	// term shapes: name!N defined by discarded define-fun -> unknown. We therefore keep havoc terms inline (see
	// havocStores).
	idxs, ok := storeIndices(term)
	if !ok {
		return T{"?", "Bool"}
	}
	var ds []T
	for _, ix := range idxs {
		ds = append(ds, eq(o, T{ix, "Ref"}))
	}
	return or(ds...)
}

// storeIndices collects the indices written by a term built from $init symbols, stores and ites.
func storeIndices(term string) ([]string, bool) {
	term = strings.TrimSpace(term)
	if isAtom(term) {
		return nil, strings.HasSuffix(term, "$init")
	}
	parts := splitSexpr(term)
	if len(parts) == 0 {
		return nil, false
	}
	switch parts[0] {
	case "store":
		if len(parts) != 4 {
			return nil, false
		}
		rest, ok := storeIndices(parts[1])
		if !ok {
			return nil, false
		}
		return append(rest, parts[2]), true
	case "ite":
		if len(parts) != 4 {
			return nil, false
		}
		a, ok1 := storeIndices(parts[2])
		b, ok2 := storeIndices(parts[3])
		if !ok1 || !ok2 {
			return nil, false
		}
		return append(a, b...), true
	}
	return nil, false
}

// splitSexpr splits "(f a (b c) d)" into [f, a, (b c), d].
func splitSexpr(s string) []string {
	s = strings.TrimSpace(s)
	if len(s) < 2 || s[0] != '(' {
		return nil
	}
	s = s[1 : len(s)-1]
	var out []string
	i := 0
	for i < len(s) {
		for i < len(s) && s[i] == ' ' {
			i++
		}
		if i >= len(s) {
			break
		}
		j := skipSort(s, i)
		out = append(out, s[i:j])
		i = j
	}
	return out
}
