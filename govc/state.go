package main

// Symbolic state: a map from heap/ghost component name to the SMT term holding its current value.
// A component absent from the map has its initial (function-entry) value <comp>$init.

import (
	"fmt"
	"go/types"
	"sort"
	"strings"
)

type State struct {
	m map[string]T
}

func newState() *State { return &State{m: map[string]T{}} }

func (s *State) clone() *State {
	n := &State{m: make(map[string]T, len(s.m))}
	for k, v := range s.m {
		n.m[k] = v
	}
	return n
}

type EngineError struct {
	Kind string
	Msg  string
}

func (e *EngineError) Error() string { return "ENGINE-ERROR " + e.Kind + ": " + e.Msg }

func engineErr(kind, f string, a ...interface{}) *EngineError {
	return &EngineError{Kind: kind, Msg: fmt.Sprintf(f, a...)}
}

// comp registers a state component with its sort.
func (ex *Exec) comp(name, sort string) string {
	if s, ok := ex.comps[name]; ok {
		if s != sort {
			panic(engineErr("internal", "component %s has sorts %s and %s", name, s, sort))
		}
		return name
	}
	ex.comps[name] = sort
	ex.decls = append(ex.decls, fmt.Sprintf("(declare-const %s$init %s)", name, sort))
	if strings.HasPrefix(name, "Released$") {
		ex.decls = append(ex.decls, fmt.Sprintf("(assert (= %s$init ((as const %s) false)))", name, sort)) // no lock has been released by this call yet
	}
	if strings.HasPrefix(name, "Armed$") {
		ex.decls = append(ex.decls, fmt.Sprintf("(assert (not %s$init))", name)) // no deferred call is pending at entry
	}
	return name
}

func (ex *Exec) get(st *State, comp string) T {
	if t, ok := st.m[comp]; ok {
		return t
	}
	s, ok := ex.comps[comp]
	if !ok {
		panic(engineErr("internal", "unknown component %s", comp))
	}
	return T{comp + "$init", s}
}

func (ex *Exec) set(st *State, comp string, v T) {
	st.m[comp] = ex.define(comp, v)
}

func (ex *Exec) sortName(s string) string { return sanitize(s) }

// Component constructors ----------------------------------------------------

func (ex *Exec) fieldComp(st types.Type, i int) string {
	u := st.Underlying().(*types.Struct)
	id := ex.sorts.structID(st)
	f := u.Field(i)
	return ex.comp(fmt.Sprintf("F$%s$%d_%s", id, i, sanitize(f.Name())), arraySort("Ref", ex.sorts.sortOf(f.Type())))
}

func (ex *Exec) cellComp(elem types.Type) string {
	s := ex.sorts.sortOf(elem)
	return ex.comp("Cell$"+ex.sortName(s), arraySort("Ref", s))
}

func (ex *Exec) elemsComp(elem types.Type) string {
	s := ex.sorts.sortOf(elem)
	return ex.comp("Elems$"+ex.sortName(s), arraySort("Ref", arraySort("Int", s)))
}

func (ex *Exec) mapComps(m *types.Map) (has, val, ln string) {
	ks, vs := ex.sorts.sortOf(m.Key()), ex.sorts.sortOf(m.Elem())
	n := ex.sortName(ks) + "$" + ex.sortName(vs)
	has = ex.comp("MapHas$"+n, arraySort("Ref", arraySort(ks, "Bool")))
	val = ex.comp("MapVal$"+n, arraySort("Ref", arraySort(ks, vs)))
	ln = ex.comp("MapLen", arraySort("Ref", "Int"))
	return
}

func (ex *Exec) allocComp() string { return ex.comp("Alloc", arraySort("Ref", "Bool")) }

// ---------------------------------------------------------------------------
// L-values.

type pathStep struct {
	structSort string // S$...
	st         *types.Struct
	idx        int
}

// LV describes a memory location.
//
//	kind "comp":   component comp indexed by idx (1 index: field/cell, 2 indices: slice element), then a path of
//	               struct-value field projections;
//	kind "struct": a struct object at reference ref (its fields live in per-field components);
//	kind "array":  an array object at reference ref (contents in Elems$<elem>[ref]).
type LV struct {
	kind string
	comp string
	idx  []T
	path []pathStep
	ref  T
	typ  types.Type // type of the value stored at this location
}

func isStruct(t types.Type) bool { _, ok := t.Underlying().(*types.Struct); return ok }
func isArray(t types.Type) bool  { _, ok := t.Underlying().(*types.Array); return ok }

// ptrLV: the location a pointer term refers to, by static pointee type.
func (ex *Exec) ptrLV(ref T, elem types.Type) *LV {
	switch {
	case isStruct(elem):
		return &LV{kind: "struct", ref: ref, typ: elem}
	case isArray(elem):
		return &LV{kind: "array", ref: ref, typ: elem}
	}
	return &LV{kind: "comp", comp: ex.cellComp(elem), idx: []T{ref}, typ: elem}
}

// subRef: reference of a struct/array-typed field embedded by value in the object at ref.
func (ex *Exec) subRef(ref T, st types.Type, i int) T {
	id := ex.sorts.structID(st)
	fn := fmt.Sprintf("sub$%s$%d", id, i)
	if !ex.declared[fn] {
		ex.declared[fn] = true
		ex.decls = append(ex.decls, fmt.Sprintf("(declare-fun %s (Ref) Ref)", fn))
		if !ex.declared["sub$owner"] {
			ex.declared["sub$owner"] = true
			ex.decls = append(ex.decls, "(declare-fun sub$owner (Ref) Ref)", "(declare-fun sub$tag (Ref) Int)")
		}
		ex.subTags[fn] = len(ex.subTags) + 1
		// an embedded object is allocated exactly when its owner is (stated for the entry state)
		ex.allocComp()
		ex.decls = append(ex.decls, fmt.Sprintf("(assert (forall ((x Ref)) (! (= (select Alloc$init (%s x)) (select Alloc$init x)) :pattern ((%s x))))) ;relax", fn, fn))
		// embedded objects of distinct owners / distinct fields are distinct and never nil
		ex.decls = append(ex.decls, fmt.Sprintf("(assert (forall ((x Ref)) (! (and (= (sub$owner (%s x)) x) (= (sub$tag (%s x)) %d) (not (= (%s x) nil))) :pattern ((%s x))))) ;relax", fn, fn, ex.subTags[fn], fn, fn))
	}
	return app("Ref", fn, ref)
}

// fieldLV: location of field i of the struct located at base.
func (ex *Exec) fieldLV(base *LV, i int) *LV {
	st := base.typ
	u := st.Underlying().(*types.Struct)
	ft := u.Field(i).Type()
	switch base.kind {
	case "struct":
		if isStruct(ft) || isArray(ft) {
			return ex.ptrLV(ex.subRef(base.ref, st, i), ft)
		}
		return &LV{kind: "comp", comp: ex.fieldComp(st, i), idx: []T{base.ref}, typ: ft}
	case "comp":
		p := append(append([]pathStep{}, base.path...), pathStep{ex.sorts.sortOf(st), u, i})
		return &LV{kind: "comp", comp: base.comp, idx: base.idx, path: p, typ: ft}
	}
	panic(engineErr("needs-subset", "field of %s location", base.kind))
}

// elemLV: element i of the array object / backing array at arrRef.
func (ex *Exec) elemLV(arrRef, i T, elem types.Type) *LV {
	return &LV{kind: "comp", comp: ex.elemsComp(elem), idx: []T{arrRef, i}, typ: elem}
}

func (ex *Exec) load(st *State, lv *LV) T {
	switch lv.kind {
	case "comp":
		c := ex.get(st, lv.comp)
		v := sel(c, lv.idx[0])
		if len(lv.idx) == 2 {
			v = sel(v, lv.idx[1])
		}
		for _, p := range lv.path {
			f := p.st.Field(p.idx)
			v = app(ex.sorts.sortOf(f.Type()), ex.sorts.fieldAcc(p.structSort[2:], p.idx, f), v)
		}
		return v
	case "struct":
		u := lv.typ.Underlying().(*types.Struct)
		s := ex.sorts.sortOf(lv.typ)
		if u.NumFields() == 0 {
			return T{"mk$" + s, s}
		}
		var fs []T
		for i := 0; i < u.NumFields(); i++ {
			fs = append(fs, ex.load(st, ex.fieldLV(lv, i)))
		}
		return app(s, "mk$"+s, fs...)
	case "array":
		a := lv.typ.Underlying().(*types.Array)
		return sel(ex.get(st, ex.elemsComp(a.Elem())), lv.ref)
	}
	panic("load")
}

func (ex *Exec) updatePath(v T, path []pathStep, nv T) T {
	if len(path) == 0 {
		return nv
	}
	p := path[0]
	var fs []T
	for i := 0; i < p.st.NumFields(); i++ {
		f := p.st.Field(i)
		fv := app(ex.sorts.sortOf(f.Type()), ex.sorts.fieldAcc(p.structSort[2:], i, f), v)
		if i == p.idx {
			fv = ex.updatePath(fv, path[1:], nv)
		}
		fs = append(fs, fv)
	}
	return app(p.structSort, "mk$"+p.structSort, fs...)
}

func (ex *Exec) storeLV(st *State, lv *LV, v T) {
	switch lv.kind {
	case "comp":
		c := ex.get(st, lv.comp)
		if len(lv.idx) == 1 {
			old := sel(c, lv.idx[0])
			ex.set(st, lv.comp, store(c, lv.idx[0], ex.updatePath(old, lv.path, v)))
		} else {
			row := sel(c, lv.idx[0])
			old := sel(row, lv.idx[1])
			ex.set(st, lv.comp, store(c, lv.idx[0], store(row, lv.idx[1], ex.updatePath(old, lv.path, v))))
		}
	case "struct":
		u := lv.typ.Underlying().(*types.Struct)
		s := ex.sorts.sortOf(lv.typ)
		for i := 0; i < u.NumFields(); i++ {
			f := u.Field(i)
			fv := app(ex.sorts.sortOf(f.Type()), ex.sorts.fieldAcc(s[2:], i, f), v)
			ex.storeLV(st, ex.fieldLV(lv, i), fv)
		}
	case "array":
		a := lv.typ.Underlying().(*types.Array)
		comp := ex.elemsComp(a.Elem())
		ex.set(st, comp, store(ex.get(st, comp), lv.ref, v))
	}
}

// havocLV gives the location an arbitrary value of its type.
func (ex *Exec) havocLV(st *State, reach T, lv *LV) {
	switch lv.kind {
	case "comp":
		// the new value may refer to objects the callee allocated: nothing is assumed about allocatedness
		v := ex.freshOfType("hv", lv.typ, reach, nil)
		ex.storeLV(st, lv, v)
	case "struct":
		u := lv.typ.Underlying().(*types.Struct)
		for i := 0; i < u.NumFields(); i++ {
			ex.havocLV(st, reach, ex.fieldLV(lv, i))
		}
	case "array":
		a := lv.typ.Underlying().(*types.Array)
		comp := ex.elemsComp(a.Elem())
		ex.set(st, comp, store(ex.get(st, comp), lv.ref, ex.fresh("hv", arraySort("Int", ex.sorts.sortOf(a.Elem())))))
	}
}

// mergeStates builds the state at a join from (condition, state) pairs; conditions are mutually exclusive.
func (ex *Exec) mergeStates(conds []T, sts []*State) *State {
	if len(sts) == 1 {
		return sts[0].clone()
	}
	keys := map[string]bool{}
	for _, s := range sts {
		for k := range s.m {
			keys[k] = true
		}
	}
	ks := make([]string, 0, len(keys))
	for k := range keys {
		ks = append(ks, k)
	}
	sort.Strings(ks)
	out := newState()
	for _, k := range ks {
		vals := make([]T, len(sts))
		same := true
		for i, s := range sts {
			vals[i] = ex.get(s, k)
			if i > 0 && vals[i].s != vals[0].s {
				same = false
			}
		}
		if same {
			if _, isInit := sts[0].m[k]; isInit {
				out.m[k] = vals[0]
			}
			continue
		}
		t := vals[len(vals)-1]
		for i := len(vals) - 2; i >= 0; i-- {
			t = ite(conds[i], vals[i], t)
		}
		out.m[k] = ex.define(k, t)
	}
	return out
}
