package main

// tryReplay: replays a counter-model on the real code when a harness exists for the function. Returns true when the
// real code confirms the violation. (Harnesses live in /verif/replay/<pkg>/; see replay_harness.go.)
func tryReplay(verif, repo, prop string, o *Obligation, rec map[string]interface{}) bool {
	return runReplayHarness(verif, repo, prop, o, rec)
}
