package main

// Replay of counter-models on the real code.
//
// A harness is an in-package Go test template /verif/replay/<function short key>.go.tmpl. It is injected into the
// package of the function with `go test -overlay` (nothing is written to /repo), receives the scalar values of the
// solver's model as JSON (env GOVC_MODEL) and the name of the failed obligation (env GOVC_OBLIGATION), builds concrete
// inputs from them, runs the REAL function and prints REPLAY-CONFIRMED when the real code exhibits the violation.

import (
	"encoding/json"
	"fmt"
	"os"
	"os/exec"
	"path/filepath"
	"regexp"
	"strings"
)

var modelDef = regexp.MustCompile(`\(define-fun\s+(\S+)\s+\(\)\s+(Int|Bool)\s+(\(-\s*\d+\)|[^\s()]+)\s*\)`)

func parseModelScalars(model string) map[string]string {
	m := map[string]string{}
	flat := strings.Join(strings.Fields(model), " ")
	for _, mm := range modelDef.FindAllStringSubmatch(flat, -1) {
		v := mm[3]
		if strings.HasPrefix(v, "(-") {
			v = "-" + strings.TrimSpace(strings.Trim(v[2:], "() "))
		}
		m[mm[1]] = v
	}
	return m
}

func runReplayHarness(verif, repo, prop string, o *Obligation, rec map[string]interface{}) bool {
	short := strings.ReplaceAll(shortKey(o.Fn), "/", "_")
	tmpl := filepath.Join(verif, "replay", short+".go.tmpl")
	if _, err := os.Stat(tmpl); err != nil {
		rec["replay"] = "no replay harness for " + short + "; the failed obligation and the solver output are recorded instead"
		return false
	}
	// package directory of the function
	pkgPath := o.Fn
	if i := strings.Index(pkgPath, ")"); i >= 0 {
		pkgPath = strings.TrimLeft(pkgPath[:i], "(*")
	}
	pkgPath = pkgPath[:strings.LastIndex(pkgPath, ".")]
	rel := strings.TrimPrefix(strings.TrimPrefix(pkgPath, modulePath), "/")
	dir, err := os.MkdirTemp("", "govc-replay-")
	if err != nil {
		return false
	}
	defer os.RemoveAll(dir)
	scalars := parseModelScalars(o.Model)
	mb, _ := json.Marshal(scalars)
	mfile := filepath.Join(dir, "model.json")
	os.WriteFile(mfile, mb, 0o644)
	ov := map[string]map[string]string{"Replace": {filepath.Join(repo, rel, "zz_govc_replay_test.go"): tmpl}}
	// an optional second file: the stored demonstration of a seeded change, which the harness file drives
	if demo := filepath.Join(verif, "replay", short+".demo.go.tmpl"); fileExists(demo) {
		ov["Replace"][filepath.Join(repo, rel, "zz_govc_demo_test.go")] = demo
	}
	ob, _ := json.Marshal(ov)
	ovfile := filepath.Join(dir, "overlay.json")
	os.WriteFile(ovfile, ob, 0o644)
	target := "./" + rel
	if rel == "" {
		target = "."
	}
	extra := ""
	ulimit := "ulimit -v 8000000; "
	if tb, err := os.ReadFile(tmpl); err == nil {
		if m := regexp.MustCompile(`(?m)^// govc-flags: (.*)$`).FindStringSubmatch(string(tb)); m != nil {
			extra = " " + strings.TrimSpace(m[1])
			if strings.Contains(extra, "-race") {
				ulimit = "" // the race runtime reserves a large address space
			}
		}
	}
	cmd := exec.Command("bash", "-c", fmt.Sprintf("%scd %s && go test -overlay %s -vet=off -timeout 60s -count=1%s -run '^TestGovcReplay$' -v %s", ulimit, repo, ovfile, extra, target))
	cmd.Env = append(os.Environ(), "GOFLAGS=-mod=mod", "GOPROXY=off", "GOSUMDB=off", "GOTOOLCHAIN=local", "GOVC_MODEL="+mfile, "GOVC_OBLIGATION="+o.Name)
	out, _ := cmd.CombinedOutput()
	text := string(out)
	if len(text) > 6000 {
		text = text[:3000] + "\n...\n" + text[len(text)-3000:]
	}
	rec["replay"] = map[string]interface{}{"harness": strings.TrimPrefix(tmpl, verif+"/"), "model_scalars": scalars, "command": "go test -overlay <harness as zz_govc_replay_test.go> -run TestGovcReplay " + target, "output": text}
	return strings.Contains(string(out), "REPLAY-CONFIRMED") || strings.Contains(string(out), "WARNING: DATA RACE")
}

func fileExists(p string) bool { _, err := os.Stat(p); return err == nil }
