package main

func runReplayHarness(verif, repo, prop string, o *Obligation, rec map[string]interface{}) bool {
	rec["replay"] = "no replay harness for this function; the failed obligation and the solver output are recorded instead"
	return false
}
