package main

// SMT term / sort layer of govc.
//
// Every Go value is mapped to an SMT term of a sort determined by its Go type:
//   bool -> Bool, integers -> Int (mathematical, range-constrained, explicit wrap),
//   floats -> Real (approximation, never used by a claimed obligation),
//   string -> Str (uninterpreted, with len$Str), pointer/map/chan/func -> Ref,
//   slice -> Slice(arr,off,len,cap), interface -> Iface(typ,ref),
//   struct value -> one datatype per struct type, array value -> (Array Int T).

import (
	"fmt"
	"go/constant"
	"go/types"
	"math/big"
	"sort"
	"strings"
)

// T is an SMT term with its sort.
type T struct {
	s    string
	sort string
}

func (t T) String() string { return t.s }

var (
	tTrue  = T{"true", "Bool"}
	tFalse = T{"false", "Bool"}
	tNil   = T{"nil", "Ref"}
)

func intLit(n int64) T {
	if n < 0 {
		return T{fmt.Sprintf("(- %d)", -n), "Int"}
	}
	return T{fmt.Sprintf("%d", n), "Int"}
}

func bigLit(n *big.Int) T {
	if n.Sign() < 0 {
		return T{"(- " + new(big.Int).Neg(n).String() + ")", "Int"}
	}
	return T{n.String(), "Int"}
}

// curDefs: definitions of the Exec currently generating VCs (used for peephole simplification of projections).
var curDefs map[string]string

func app(sort, f string, args ...T) T {
	if len(args) == 1 && (f == "if$ref" || f == "if$typ") {
		a := args[0].s
		if d, ok := curDefs[a]; ok && isAtom(a) {
			a = d
		}
		if strings.HasPrefix(a, "(mk$Iface ") {
			if parts := splitSexpr(a); len(parts) == 3 {
				if f == "if$typ" {
					return T{parts[1], sort}
				}
				return T{parts[2], sort}
			}
		}
	}
	if len(args) == 1 && strings.HasPrefix(f, "sl$") {
		a := args[0].s
		if d, ok := curDefs[a]; ok && isAtom(a) {
			a = d
		}
		if strings.HasPrefix(a, "(mk$Slice ") {
			if parts := splitSexpr(a); len(parts) == 5 {
				idx := map[string]int{"sl$arr": 1, "sl$off": 2, "sl$len": 3, "sl$cap": 4}[f]
				if idx > 0 {
					return T{parts[idx], sort}
				}
			}
		}
	}
	var sb strings.Builder
	sb.WriteString("(")
	sb.WriteString(f)
	for _, a := range args {
		sb.WriteString(" ")
		sb.WriteString(a.s)
	}
	sb.WriteString(")")
	return T{sb.String(), sort}
}

func and(ts ...T) T {
	var out []T
	for _, t := range ts {
		if t.s == "true" {
			continue
		}
		if t.s == "false" {
			return tFalse
		}
		out = append(out, t)
	}
	if len(out) == 0 {
		return tTrue
	}
	if len(out) == 1 {
		return out[0]
	}
	return app("Bool", "and", out...)
}

func or(ts ...T) T {
	var out []T
	for _, t := range ts {
		if t.s == "false" {
			continue
		}
		if t.s == "true" {
			return tTrue
		}
		out = append(out, t)
	}
	if len(out) == 0 {
		return tFalse
	}
	if len(out) == 1 {
		return out[0]
	}
	return app("Bool", "or", out...)
}

func not(t T) T {
	if t.s == "true" {
		return tFalse
	}
	if t.s == "false" {
		return tTrue
	}
	return app("Bool", "not", t)
}

func implies(a, b T) T {
	if a.s == "true" {
		return b
	}
	if a.s == "false" || b.s == "true" {
		return tTrue
	}
	return app("Bool", "=>", a, b)
}

func eq(a, b T) T {
	if a.s == b.s {
		return tTrue
	}
	return app("Bool", "=", a, b)
}

func ite(c, a, b T) T {
	if c.s == "true" {
		return a
	}
	if c.s == "false" {
		return b
	}
	if a.s == b.s {
		return a
	}
	return app(a.sort, "ite", c, a, b)
}

func sel(arr, idx T) T {
	return app(elemSort(arr.sort), "select", arr, idx)
}

func store(arr, idx, v T) T {
	return app(arr.sort, "store", arr, idx, v)
}

// elemSort returns the range sort of an (Array D R) sort string.
func elemSort(arrSort string) string {
	// (Array D R): find D by paren matching.
	s := strings.TrimSpace(arrSort)
	if !strings.HasPrefix(s, "(Array ") {
		panic("elemSort: not an array sort: " + arrSort)
	}
	rest := s[len("(Array ") : len(s)-1]
	// skip one sort
	i := skipSort(rest, 0)
	return strings.TrimSpace(rest[i:])
}

func domSort(arrSort string) string {
	s := strings.TrimSpace(arrSort)
	rest := s[len("(Array ") : len(s)-1]
	i := skipSort(rest, 0)
	return strings.TrimSpace(rest[:i])
}

func skipSort(s string, i int) int {
	for i < len(s) && s[i] == ' ' {
		i++
	}
	if i < len(s) && s[i] == '(' {
		depth := 0
		for ; i < len(s); i++ {
			if s[i] == '(' {
				depth++
			} else if s[i] == ')' {
				depth--
				if depth == 0 {
					return i + 1
				}
			}
		}
		return i
	}
	for i < len(s) && s[i] != ' ' {
		i++
	}
	return i
}

func arraySort(d, r string) string { return "(Array " + d + " " + r + ")" }

// ---------------------------------------------------------------------------
// Sorts of Go types.

type Sorts struct {
	ex        *Exec
	structIDs map[string]string // types.Type string -> short id
	structTy  map[string]*types.Struct
	nextID    int
	tids      map[string]int // dynamic type ids for interfaces
	tidTypes  []types.Type
}

func newSorts(ex *Exec) *Sorts {
	return &Sorts{ex: ex, structIDs: map[string]string{}, structTy: map[string]*types.Struct{}, tids: map[string]int{}}
}

func sanitize(s string) string {
	var sb strings.Builder
	for _, r := range s {
		switch {
		case r >= 'a' && r <= 'z', r >= 'A' && r <= 'Z', r >= '0' && r <= '9', r == '_':
			sb.WriteRune(r)
		default:
			sb.WriteRune('_')
		}
	}
	return sb.String()
}

// typeName gives a short readable name for a (named or literal) type.
func typeName(t types.Type) string {
	switch t := t.(type) {
	case *types.Named:
		o := t.Obj()
		if o.Pkg() != nil {
			return o.Pkg().Name() + "." + o.Name()
		}
		return o.Name()
	case *types.Alias:
		return typeName(types.Unalias(t))
	}
	return t.String()
}

// structID returns a stable short identifier for a struct type (named or not).
func (so *Sorts) structID(t types.Type) string {
	t = types.Unalias(t)
	key := t.String()
	if id, ok := so.structIDs[key]; ok {
		return id
	}
	var id string
	if n, ok := t.(*types.Named); ok {
		id = sanitize(typeName(n))
		// disambiguate same pkg name / type name from different paths
		for _, v := range so.structIDs {
			if v == id {
				id = sanitize(n.Obj().Pkg().Path() + "." + n.Obj().Name())
			}
		}
	} else {
		so.nextID++
		id = fmt.Sprintf("anon%d", so.nextID)
	}
	so.structIDs[key] = id
	if st, ok := t.Underlying().(*types.Struct); ok {
		so.structTy[id] = st
	}
	return id
}

// tid returns the dynamic-type id of a concrete type.
func (so *Sorts) tid(t types.Type) int {
	t = types.Unalias(t)
	key := t.String()
	if id, ok := so.tids[key]; ok {
		return id
	}
	id := len(so.tids) + 1
	so.tids[key] = id
	so.tidTypes = append(so.tidTypes, t)
	return id
}

func isRefLike(t types.Type) bool {
	switch u := t.Underlying().(type) {
	case *types.Pointer, *types.Map, *types.Chan, *types.Signature:
		return true
	case *types.Basic:
		return u.Kind() == types.UnsafePointer || u.Kind() == types.UntypedNil
	}
	return false
}

// sortOf maps a Go type to an SMT sort, declaring datatypes on demand.
func (so *Sorts) sortOf(t types.Type) string {
	t = types.Unalias(t)
	switch u := t.Underlying().(type) {
	case *types.Basic:
		info := u.Info()
		switch {
		case info&types.IsBoolean != 0:
			return "Bool"
		case info&types.IsInteger != 0:
			return "Int"
		case info&types.IsFloat != 0:
			return "Real"
		case info&types.IsString != 0:
			return "Str"
		case u.Kind() == types.UnsafePointer || u.Kind() == types.UntypedNil:
			return "Ref"
		case info&types.IsComplex != 0:
			return "Real"
		}
	case *types.Pointer, *types.Map, *types.Chan, *types.Signature:
		return "Ref"
	case *types.Slice:
		return "Slice"
	case *types.Interface:
		return "Iface"
	case *types.Array:
		return arraySort("Int", so.sortOf(u.Elem()))
	case *types.Struct:
		id := so.structID(t)
		name := "S$" + id
		if !so.ex.declared[name] {
			so.ex.declared[name] = true
			var fields []string
			for i := 0; i < u.NumFields(); i++ {
				f := u.Field(i)
				fields = append(fields, fmt.Sprintf("(%s %s)", so.fieldAcc(id, i, f), so.sortOf(f.Type())))
			}
			if len(fields) == 0 {
				so.ex.decls = append(so.ex.decls, fmt.Sprintf("(declare-datatypes ((%s 0)) (((mk$%s))))", name, name))
			} else {
				so.ex.decls = append(so.ex.decls, fmt.Sprintf("(declare-datatypes ((%s 0)) (((mk$%s %s))))", name, name, strings.Join(fields, " ")))
			}
		}
		return name
	case *types.Tuple:
		return "GoTuple"
	case *types.TypeParam:
		return "Iface"
	}
	panic(engineErr("needs-subset", "no sort for type %s", t))
}

func (so *Sorts) fieldAcc(structID string, i int, f *types.Var) string {
	return fmt.Sprintf("S$%s$%d_%s", structID, i, sanitize(f.Name()))
}

// intRange returns (lo, hi, ok) for integer types.
func intRange(t types.Type) (lo, hi *big.Int, ok bool) {
	b, isB := t.Underlying().(*types.Basic)
	if !isB || b.Info()&types.IsInteger == 0 {
		return nil, nil, false
	}
	bits, signed := intBits(b)
	one := big.NewInt(1)
	if signed {
		hi = new(big.Int).Sub(new(big.Int).Lsh(one, uint(bits-1)), one)
		lo = new(big.Int).Neg(new(big.Int).Lsh(one, uint(bits-1)))
	} else {
		lo = big.NewInt(0)
		hi = new(big.Int).Sub(new(big.Int).Lsh(one, uint(bits)), one)
	}
	return lo, hi, true
}

func intBits(b *types.Basic) (bits int, signed bool) {
	switch b.Kind() {
	case types.Int8:
		return 8, true
	case types.Int16:
		return 16, true
	case types.Int32:
		return 32, true
	case types.Int64, types.Int, types.UntypedInt, types.UntypedRune:
		return 64, true
	case types.Uint8:
		return 8, false
	case types.Uint16:
		return 16, false
	case types.Uint32:
		return 32, false
	case types.Uint64, types.Uint, types.Uintptr:
		return 64, false
	}
	return 64, true
}

// inRange gives the range constraint of an integer-typed term (true for others).
func inRange(t T, ty types.Type) T {
	lo, hi, ok := intRange(ty)
	if !ok {
		return tTrue
	}
	return and(app("Bool", "<=", bigLit(lo), t), app("Bool", "<=", t, bigLit(hi)))
}

// wrapTo wraps a mathematical integer into the range of the Go type (two's complement).
func wrapTo(t T, ty types.Type) T {
	lo, hi, ok := intRange(ty)
	if !ok {
		return t
	}
	size := new(big.Int).Add(new(big.Int).Sub(hi, lo), big.NewInt(1))
	if lo.Sign() == 0 {
		return app("Int", "mod", t, bigLit(size))
	}
	// ((t - lo) mod size) + lo
	return app("Int", "+", app("Int", "mod", app("Int", "-", t, bigLit(lo)), bigLit(size)), bigLit(lo))
}

// wrapAddSub: cheaper wrap for a single add/sub of in-range operands.
func wrapAddSub(t T, ty types.Type) T {
	lo, hi, ok := intRange(ty)
	if !ok {
		return t
	}
	size := new(big.Int).Add(new(big.Int).Sub(hi, lo), big.NewInt(1))
	return ite(app("Bool", ">", t, bigLit(hi)), app("Int", "-", t, bigLit(size)),
		ite(app("Bool", "<", t, bigLit(lo)), app("Int", "+", t, bigLit(size)), t))
}

// zero value of a Go type.
func (so *Sorts) zero(t types.Type) T {
	t = types.Unalias(t)
	switch u := t.Underlying().(type) {
	case *types.Basic:
		info := u.Info()
		switch {
		case info&types.IsBoolean != 0:
			return tFalse
		case info&types.IsInteger != 0:
			return intLit(0)
		case info&types.IsFloat != 0, info&types.IsComplex != 0:
			return T{"0.0", "Real"}
		case info&types.IsString != 0:
			return T{"str$empty", "Str"}
		}
		return tNil
	case *types.Pointer, *types.Map, *types.Chan, *types.Signature:
		return tNil
	case *types.Slice:
		return T{"nil$Slice", "Slice"}
	case *types.Interface:
		return T{"nil$Iface", "Iface"}
	case *types.Array:
		es := so.sortOf(u.Elem())
		return so.ex.constArray("Int", es, so.zero(u.Elem()))
	case *types.Struct:
		s := so.sortOf(t)
		if u.NumFields() == 0 {
			return T{"mk$" + s, s}
		}
		var fs []T
		for i := 0; i < u.NumFields(); i++ {
			fs = append(fs, so.zero(u.Field(i).Type()))
		}
		return app(s, "mk$"+s, fs...)
	case *types.TypeParam:
		return T{"nil$Iface", "Iface"}
	}
	panic(engineErr("needs-subset", "no zero for type %s", t))
}

// constTerm converts a go/constant value of Go type ty.
func (ex *Exec) constTerm(v constant.Value, ty types.Type) T {
	if v == nil {
		return ex.sorts.zero(ty)
	}
	switch v.Kind() {
	case constant.Bool:
		if constant.BoolVal(v) {
			return tTrue
		}
		return tFalse
	case constant.Int:
		if b, ok := ty.Underlying().(*types.Basic); ok && b.Info()&types.IsFloat != 0 {
			f, _ := constant.Float64Val(v)
			return T{fmt.Sprintf("%f", f), "Real"}
		}
		bi, ok := new(big.Int).SetString(v.ExactString(), 10)
		if !ok {
			panic(engineErr("needs-subset", "bad int const %s", v))
		}
		return bigLit(bi)
	case constant.Float:
		f, _ := constant.Float64Val(v)
		if f < 0 {
			return T{fmt.Sprintf("(- %f)", -f), "Real"}
		}
		return T{fmt.Sprintf("%f", f), "Real"}
	case constant.String:
		return ex.strLit(constant.StringVal(v))
	}
	panic(engineErr("needs-subset", "const kind %v", v.Kind()))
}

// strLit interns a string literal: distinct literals are distinct Str values with known length.
func (ex *Exec) strLit(s string) T {
	if s == "" {
		return T{"str$empty", "Str"}
	}
	if n, ok := ex.strLits[s]; ok {
		return T{n, "Str"}
	}
	n := fmt.Sprintf("str$%d", len(ex.strLits)+1)
	ex.strLits[s] = n
	ex.strOrder = append(ex.strOrder, s)
	ex.decls = append(ex.decls, fmt.Sprintf("(declare-const %s Str) ; %q", n, truncate(s, 60)))
	ex.decls = append(ex.decls, fmt.Sprintf("(assert (= (len$Str %s) %d))", n, len(s)))
	// first byte facts are occasionally useful
	return T{n, "Str"}
}

func truncate(s string, n int) string {
	s = strings.ReplaceAll(s, "\n", "\\n")
	if len(s) > n {
		return s[:n] + "..."
	}
	return s
}

// strDistinct emits a distinctness axiom for all interned literals.
func (ex *Exec) strDistinct() string {
	if len(ex.strLits) == 0 {
		return ""
	}
	names := []string{"str$empty"}
	var ks []string
	for _, n := range ex.strLits {
		ks = append(ks, n)
	}
	sort.Strings(ks)
	names = append(names, ks...)
	if len(names) < 2 {
		return ""
	}
	return "(assert (distinct " + strings.Join(names, " ") + "))"
}

const prelude = `(set-logic ALL)
(declare-sort Ref 0)
(declare-sort Str 0)
(declare-sort GoTuple 0)
(declare-const nil Ref)
(declare-datatypes ((Slice 0)) (((mk$Slice (sl$arr Ref) (sl$off Int) (sl$len Int) (sl$cap Int)))))
(declare-datatypes ((Iface 0)) (((mk$Iface (if$typ Int) (if$ref Ref)))))
(define-fun nil$Slice () Slice (mk$Slice nil 0 0 0))
(define-fun nil$Iface () Iface (mk$Iface 0 nil))
(declare-fun len$Str (Str) Int)
(declare-const str$empty Str)
(assert (= (len$Str str$empty) 0))
(declare-fun str$at (Str Int) Int)
(declare-fun str$concat (Str Str) Str)
(declare-fun str$sub (Str Int Int) Str)
(declare-fun str$ofbytes ((Array Int Int) Int Int) Str)
(declare-fun str$tobytes (Str) (Array Int Int))
(declare-fun str$ofint (Int) Str)
(assert (forall ((s Str) (k Int)) (! (= (select (str$tobytes s) k) (str$at s k)) :pattern ((select (str$tobytes s) k))))) ;relax
(declare-fun str$lt (Str Str) Bool)
(declare-fun bit$and (Int Int) Int)
(declare-fun bit$or (Int Int) Int)
(declare-fun bit$xor (Int Int) Int)
(declare-fun chan$cap (Ref) Int)
(declare-fun bit$shl (Int Int) Int)
(declare-fun bit$shr (Int Int) Int)
(declare-fun real$toint (Real) Int)
(define-fun go$div ((x Int) (y Int)) Int (ite (>= x 0) (ite (> y 0) (div x y) (- (div x (- y)))) (ite (> y 0) (- (div (- x) y)) (div (- x) (- y)))))
(define-fun go$rem ((x Int) (y Int)) Int (- x (* y (go$div x y))))
(define-fun min$Int ((x Int) (y Int)) Int (ite (<= x y) x y))
(define-fun max$Int ((x Int) (y Int)) Int (ite (>= x y) x y))
`

// constArray: the array mapping every index to v. Literal element values use the solver's constant arrays; other
// element sorts (strings, references, datatypes with uninterpreted parts), for which cvc5 rejects `as const`, use a
// declared array with a defining axiom.
func (ex *Exec) constArray(dom, es string, v T) T {
	as := arraySort(dom, es)
	if es == "Int" || es == "Bool" || es == "Real" {
		return T{fmt.Sprintf("((as const %s) %s)", as, v.s), as}
	}
	name := "zeroarr$" + sanitize(dom) + "$" + sanitize(es)
	if !ex.declared[name] {
		ex.declared[name] = true
		ex.decls = append(ex.decls, fmt.Sprintf("(declare-const %s %s)", name, as),
			fmt.Sprintf("(assert (forall ((i %s)) (! (= (select %s i) %s) :pattern ((select %s i))))) ;relax", dom, name, v.s, name))
	}
	return T{name, as}
}
