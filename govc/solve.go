package main

import (
	"context"
	"fmt"
	"os"
	"os/exec"
	"path/filepath"
	"strings"
	"sync"
	"time"
)

type solverSpec struct {
	name string
	args func(file string, timeout int) []string
}

var solvers = []solverSpec{
	{"z3-new", func(f string, t int) []string { return []string{"z3-new", fmt.Sprintf("-T:%d", t), f} }},
	{"z3", func(f string, t int) []string { return []string{"z3", fmt.Sprintf("-T:%d", t), f} }},
	{"cvc5", func(f string, t int) []string { return []string{"cvc5", fmt.Sprintf("--tlimit=%d", t*1000), f} }},
}

var fmfSolver = solverSpec{"cvc5-fmf", func(f string, t int) []string {
	return []string{"cvc5", "--finite-model-find", fmt.Sprintf("--tlimit=%d", t*1000), f}
}}

func buildQuery(fr *FuncResult, o *Obligation) string {
	var sb strings.Builder
	sb.WriteString("(set-option :produce-models true)\n")
	sb.WriteString(prelude)
	for _, d := range fr.Decls {
		sb.WriteString(d)
		sb.WriteString("\n")
	}
	for _, l := range fr.Script[:o.Prefix] {
		sb.WriteString(l)
		sb.WriteString("\n")
	}
	sb.WriteString("; ---- obligation " + o.Name + "\n")
	sb.WriteString("(assert " + o.Reach.s + ")\n")
	if o.Expect == "sat" {
		sb.WriteString("(assert " + o.Cond.s + ")\n")
	} else {
		sb.WriteString("(assert (not " + o.Cond.s + "))\n")
	}
	sb.WriteString("(check-sat)\n")
	return sb.String()
}

type solveOut struct {
	solver string
	result string // sat unsat unknown timeout error
	output string
	secs   float64
}

func runSolver(ctx context.Context, s solverSpec, file string, timeout int) solveOut {
	args := s.args(file, timeout)
	start := time.Now()
	cctx, cancel := context.WithTimeout(ctx, time.Duration(timeout+2)*time.Second)
	defer cancel()
	cmd := exec.CommandContext(cctx, args[0], args[1:]...)
	out, _ := cmd.CombinedOutput()
	secs := time.Since(start).Seconds()
	text := string(out)
	first := strings.TrimSpace(strings.SplitN(strings.TrimSpace(text), "\n", 2)[0])
	res := "error"
	switch {
	case first == "unsat":
		res = "unsat"
	case first == "sat":
		res = "sat"
	case first == "unknown":
		res = "unknown"
	case first == "timeout" || strings.Contains(first, "timeout") || strings.Contains(text, "interrupted by timeout") || cctx.Err() != nil:
		res = "timeout"
	}
	return solveOut{s.name, res, text, secs}
}

// solveOne races the solvers on one obligation.
func solveOne(workdir string, idx int, fr *FuncResult, o *Obligation, timeout int) {
	q := buildQuery(fr, o)
	file := filepath.Join(workdir, fmt.Sprintf("q%05d.smt2", idx))
	if len(q) > 8<<20 {
		o.Status, o.Solver, o.Model = "undecided", "none", "VC larger than 8 MB"
		return
	}
	if err := os.WriteFile(file, []byte(q), 0o644); err != nil {
		o.Status, o.Model = "undecided", err.Error()
		return
	}
	o.Query = file
	ctx, cancel := context.WithCancel(context.Background())
	defer cancel()
	set := append([]solverSpec{}, solvers...)
	if strings.Contains(q, "(forall") || strings.Contains(q, "(exists") {
		set = append(set, fmfSolver)
	}
	ch := make(chan solveOut, len(set))
	for _, s := range set {
		s := s
		go func() { ch <- runSolver(ctx, s, file, timeout) }()
	}
	var outs []solveOut
	var decisive *solveOut
	for range set {
		r := <-ch
		outs = append(outs, r)
		if r.result == "sat" || r.result == "unsat" {
			decisive = &r
			break
		}
	}
	cancel()
	if decisive == nil {
		o.Status = "undecided"
		var parts []string
		for _, r := range outs {
			parts = append(parts, fmt.Sprintf("%s: %s (%.1fs)", r.solver, r.result, r.secs))
			o.Seconds += r.secs
		}
		o.Solver = strings.Join(parts, "; ")
		if len(outs) > 0 {
			o.Model = truncate(outs[0].output, 400)
		}
		return
	}
	o.Solver, o.Seconds = decisive.solver, decisive.secs
	want := o.Expect
	if decisive.result == want {
		o.Status = "discharged"
		return
	}
	o.Status = "refuted"
	// get a model for the counterexample (separate run with get-model, best effort)
	if decisive.result == "sat" {
		mfile := file + ".model.smt2"
		os.WriteFile(mfile, []byte(q+"(get-model)\n"), 0o644)
		for _, s := range []solverSpec{solvers[0], solvers[2]} {
			r := runSolver(context.Background(), s, mfile, timeout)
			if r.result == "sat" {
				o.Model = r.output
				break
			}
		}
		os.Remove(mfile)
	}
}

func solveAll(workdir string, frs []*FuncResult, pick func(*Obligation) bool, timeout, parallel int) {
	type job struct {
		fr  *FuncResult
		o   *Obligation
		idx int
	}
	var jobs []job
	n := 0
	for _, fr := range frs {
		for _, o := range fr.Obligations {
			if pick(o) {
				jobs = append(jobs, job{fr, o, n})
				n++
			}
		}
	}
	var wg sync.WaitGroup
	sem := make(chan struct{}, parallel)
	for _, j := range jobs {
		j := j
		wg.Add(1)
		sem <- struct{}{}
		go func() {
			defer wg.Done()
			defer func() { <-sem }()
			// trivial cases without a solver
			if j.o.Expect == "unsat" && (j.o.Cond.s == "true" || j.o.Reach.s == "false") {
				j.o.Status, j.o.Solver = "discharged", "trivial"
				return
			}
			solveOne(workdir, j.idx, j.fr, j.o, timeout)
		}()
	}
	wg.Wait()
}
