package main

import (
	"context"
	"fmt"
	"os"
	"os/exec"
	"path/filepath"
	"regexp"
	"strings"
	"sync"
	"time"
)

type solverSpec struct {
	name string
	args func(file string, timeout int) []string
}

var solvers = []solverSpec{
	{"z3-new", func(f string, t int) []string { return []string{"z3-new", fmt.Sprintf("-T:%d", t), f} }},
	{"z3", func(f string, t int) []string { return []string{"z3", fmt.Sprintf("-T:%d", t), f} }},
	{"cvc5", func(f string, t int) []string { return []string{"cvc5", fmt.Sprintf("--tlimit=%d", t*1000), f} }},
}

var fmfSolver = solverSpec{"cvc5-fmf", func(f string, t int) []string {
	return []string{"cvc5", "--finite-model-find", fmt.Sprintf("--tlimit=%d", t*1000), f}
}}

var symRe = regexp.MustCompile(`[A-Za-z_][A-Za-z0-9_$!.]*`)

func symsOf(line string) []string { return symRe.FindAllString(line, -1) }

func isGuardSym(s string) bool {
	return strings.HasPrefix(s, "reach_") || strings.HasPrefix(s, "edge_") || strings.HasPrefix(s, "deferred!")
}

// isGenerated: a nullary symbol created by the generator (fresh constants, defined terms, initial components, parameters).
func isGenerated(s string) bool {
	return strings.Contains(s, "!") || strings.HasSuffix(s, "$init")
}

// sliceScript keeps the lines of the prefix in the cone of influence of the goal. Dropping assumptions is sound for
// `unsat` answers; any other answer on a sliced query is re-decided on the full query.
func sliceScript(lines []string, goal ...string) []string {
	needed := map[string]bool{}
	add := func(text string) {
		for _, s := range symsOf(text) {
			if isGenerated(s) {
				needed[s] = true
			}
		}
	}
	for _, g := range goal {
		add(g)
	}
	type ln struct {
		def  string
		syms []string
	}
	info := make([]ln, len(lines))
	for i, l := range lines {
		if strings.HasPrefix(l, "(define-fun ") {
			rest := l[len("(define-fun "):]
			info[i].def = rest[:strings.IndexByte(rest, ' ')]
		}
		for _, s := range symsOf(l) {
			if isGenerated(s) {
				info[i].syms = append(info[i].syms, s)
			}
		}
	}
	included := make([]bool, len(lines))
	for changed := true; changed; {
		changed = false
		for i := len(lines) - 1; i >= 0; i-- {
			if included[i] {
				continue
			}
			take := false
			if info[i].def != "" {
				take = needed[info[i].def]
			} else {
				for _, s := range info[i].syms {
					if needed[s] && !isGuardSym(s) {
						take = true
						break
					}
				}
			}
			if take {
				included[i] = true
				changed = true
				for _, s := range info[i].syms {
					needed[s] = true
				}
			}
		}
	}
	var out []string
	for i, l := range lines {
		if included[i] {
			out = append(out, l)
		}
	}
	return out
}

// tierFilter drops quantified assumptions whose origin tag is not in the allowed set (any subset of the assumptions is
// sound for an `unsat` answer). allowed == nil keeps everything.
func tierFilter(lines []string, allowed map[string]bool) []string {
	if allowed == nil {
		return lines
	}
	var out []string
	for _, l := range lines {
		if strings.HasPrefix(l, "(assert") && (strings.Contains(l, "(forall") || strings.Contains(l, "(exists")) {
			tag := "other"
			if i := strings.LastIndex(l, ";@"); i >= 0 {
				tag = strings.TrimSpace(l[i+2:])
			}
			if !allowed[tag] {
				continue
			}
		}
		out = append(out, l)
	}
	return out
}

func buildQueryTier(fr *FuncResult, o *Obligation, allowed map[string]bool) string {
	var sb strings.Builder
	sb.WriteString("(set-option :produce-models true)\n")
	sb.WriteString(prelude)
	for _, d := range fr.Decls {
		sb.WriteString(d)
		sb.WriteString("\n")
	}
	for _, l := range sliceScript(tierFilter(fr.Script[:o.Prefix], allowed), o.Reach.s, o.Cond.s) {
		sb.WriteString(l)
		sb.WriteString("\n")
	}
	sb.WriteString("; ---- obligation " + o.Name + "\n")
	sb.WriteString("(assert " + o.Reach.s + ")\n(assert (not " + o.Cond.s + "))\n(check-sat)\n")
	return sb.String()
}

func buildQuery(fr *FuncResult, o *Obligation, sliced bool) string {
	var sb strings.Builder
	sb.WriteString("(set-option :produce-models true)\n")
	sb.WriteString(prelude)
	for _, d := range fr.Decls {
		sb.WriteString(d)
		sb.WriteString("\n")
	}
	lines := fr.Script[:o.Prefix]
	if sliced {
		lines = sliceScript(lines, o.Reach.s, o.Cond.s)
	}
	for _, l := range lines {
		sb.WriteString(l)
		sb.WriteString("\n")
	}
	sb.WriteString("; ---- obligation " + o.Name + "\n")
	sb.WriteString("(assert " + o.Reach.s + ")\n")
	if o.Expect == "sat" {
		sb.WriteString("(assert " + o.Cond.s + ")\n")
	} else {
		sb.WriteString("(assert (not " + o.Cond.s + "))\n")
	}
	sb.WriteString("(check-sat)\n")
	if o.Expect == "unsat" {
		sb.WriteString("(get-model)\n")
	}
	return sb.String()
}

type solveOut struct {
	solver string
	result string // sat unsat unknown timeout error
	output string
	secs   float64
}

func runSolver(ctx context.Context, s solverSpec, file string, timeout int) solveOut {
	args := s.args(file, timeout)
	start := time.Now()
	cctx, cancel := context.WithTimeout(ctx, time.Duration(timeout+2)*time.Second)
	defer cancel()
	cmd := exec.CommandContext(cctx, args[0], args[1:]...)
	out, _ := cmd.CombinedOutput()
	secs := time.Since(start).Seconds()
	text := string(out)
	first := ""
	for _, l := range strings.Split(text, "\n") {
		l = strings.TrimSpace(l)
		if l == "" || strings.HasPrefix(l, "WARNING") || strings.HasPrefix(l, "(warning") {
			continue
		}
		first = l
		break
	}
	res := "error"
	switch {
	case first == "unsat":
		res = "unsat"
	case first == "sat":
		res = "sat"
	case first == "unknown":
		res = "unknown"
	case first == "timeout" || strings.Contains(first, "timeout") || strings.Contains(text, "interrupted by timeout") || cctx.Err() != nil:
		res = "timeout"
	}
	return solveOut{s.name, res, text, secs}
}

// solveOne races the solvers on one obligation.
// solveOne races the solvers on one obligation: first on the sliced query (an unsat answer there is final), then,
// if that does not yield unsat, on the full query.
func solveOne(workdir string, idx int, fr *FuncResult, o *Obligation, timeout int) {
	if o.Expect == "unsat" {
		// stage 1: cone-of-influence slice, short timeout (almost every obligation is decided here in well under 1 s)
		t1 := timeout
		if t1 > 4 {
			t1 = 4
		}
		// ... raced against the unsliced query on one solver: the slice can drop a fact that shares no symbol with
		// the goal, and then only the full query is provable. The first `unsat` decides.
		type r1 struct {
			ok   bool
			full bool
			ob   Obligation
		}
		ch1 := make(chan r1, 2)
		go func() {
			oc := *o
			ok := raceQuerySolvers(workdir, fmt.Sprintf("q%05d-full1.smt2", idx), buildQuery(fr, o, false), &oc, t1, true, []solverSpec{solvers[0]})
			ch1 <- r1{ok, true, oc}
		}()
		go func() {
			oc := *o
			ok := raceQuery(workdir, fmt.Sprintf("q%05d-sliced.smt2", idx), buildQuery(fr, o, true), &oc, t1, true)
			ch1 <- r1{ok, false, oc}
		}()
		var slicedOb *Obligation
		for k := 0; k < 2; k++ {
			r := <-ch1
			if r.ok {
				*o = r.ob
				if r.full {
					o.Solver += "/full"
				}
				return
			}
			if !r.full {
				oc := r.ob
				slicedOb = &oc
			}
		}
		if slicedOb != nil {
			*o = *slicedOb
		}
		spent := o.Seconds
		// stage 2, in parallel: reduced sets of quantified facts. Any subset of the assumptions is sound for `unsat`;
		// combinations of quantified lemmas can send the instantiation engines into matching loops although one of
		// them suffices. Variants: proved lemmas only; lemmas+invariants+preconditions; lemmas+callee posts; and each
		// tagged quantified fact alone (the ten most recent).
		type variant struct {
			name string
			q    string
		}
		var vs []variant
		hasQ := false
		var qidx []int
		for i, l := range fr.Script[:o.Prefix] {
			if strings.HasPrefix(l, "(assert") && strings.Contains(l, ";@") && (strings.Contains(l, "(forall") || strings.Contains(l, "(exists")) {
				hasQ = true
				qidx = append(qidx, i)
			}
		}
		if hasQ {
			for ti, allowed := range []map[string]bool{{"lemma": true}, {"lemma": true, "inv": true, "pre": true}, {"lemma": true, "post": true, "pre": true}} {
				vs = append(vs, variant{fmt.Sprintf("tier%d", ti+1), buildQueryTier(fr, o, allowed)})
			}
			if len(qidx) > 10 {
				qidx = qidx[len(qidx)-10:]
			}
			for k, keep := range qidx {
				var lines []string
				for i, l := range fr.Script[:o.Prefix] {
					if i != keep && strings.HasPrefix(l, "(assert") && (strings.Contains(l, "(forall") || strings.Contains(l, "(exists")) && !strings.HasSuffix(l, ";relax") {
						continue
					}
					lines = append(lines, l)
				}
				var sb strings.Builder
				sb.WriteString("(set-option :produce-models true)\n")
				sb.WriteString(prelude)
				for _, d := range fr.Decls {
					sb.WriteString(d + "\n")
				}
				for _, l := range sliceScript(lines, o.Reach.s, o.Cond.s) {
					sb.WriteString(l + "\n")
				}
				sb.WriteString("; ---- obligation " + o.Name + "\n(assert " + o.Reach.s + ")\n(assert (not " + o.Cond.s + "))\n(check-sat)\n")
				vs = append(vs, variant{fmt.Sprintf("single%d", k), sb.String()})
			}
			// the full sliced query again with the whole timeout, and the unsliced query (the slice can lose a fact
			// that has no symbol in common with the goal, e.g. an axiom about an uninterpreted function)
			vs = append(vs, variant{"sliced", buildQuery(fr, o, true)})
			vs = append(vs, variant{"full", buildQuery(fr, o, false)})
			type res struct {
				ok  bool
				tag string
				ob  Obligation
			}
			ch := make(chan res, len(vs))
			for _, v := range vs {
				v := v
				go func() {
					oc := *o
					ok := raceQuerySolvers(workdir, fmt.Sprintf("q%05d-%s.smt2", idx, v.name), v.q, &oc, timeout, true, []solverSpec{solvers[0], solvers[2]})
					ch <- res{ok, v.name, oc}
				}()
			}
			var got *res
			maxSec := 0.0
			for range vs {
				r := <-ch
				if r.ob.Seconds > maxSec {
					maxSec = r.ob.Seconds
				}
				if r.ok {
					// the first variant that proves the goal decides; the others run out on their own timeouts
					rr := r
					got = &rr
					break
				}
				if r.ok && (got == nil || r.ob.Seconds < got.ob.Seconds) {
					rr := r
					got = &rr
				}
			}
			if got != nil {
				*o = got.ob
				if got.tag != "sliced" {
					o.Solver += "-" + got.tag
				}
				o.Seconds += spent
				return
			}
			o.Seconds = spent + maxSec
		}
	}
	defer func() {
		// No answer on the full query: look for a candidate counter-model with the axioms that only have infinite
		// models (injectivity of embedded-object addresses) dropped. The verdict stays "not discharged" either way;
		// the model only feeds the replay on the real code.
		if o.Expect == "unsat" && o.Status == "undecided" {
			q := buildQuery(fr, o, false)
			var keep []string
			for _, l := range strings.Split(q, "\n") {
				if !strings.HasSuffix(l, ";relax") {
					keep = append(keep, l)
				}
			}
			prev := *o
			t := timeout
			if t > 5 {
				t = 5
			}
			if raceQuery(workdir, fmt.Sprintf("q%05d-relaxed.smt2", idx), strings.Join(keep, "\n"), o, t, false) && o.Status == "refuted" {
				// a model of the relaxed query is only a candidate input for the replay: the obligation itself
				// stays undecided (and is retried with a longer timeout like every undecided obligation)
				o.Status = "undecided"
				o.Solver = prev.Solver + "; candidate model from " + o.Solver + " with relaxed axioms"
				o.Seconds += prev.Seconds
				return
			}
			*o = prev
		}
	}()
	o.Seconds0 = o.Seconds
	if o.Expect == "sat" && timeout > 2 {
		timeout = 2 // vacuity guards: an unknown answer is tolerated, only `unsat` is an alarm
	}
	raceQuery(workdir, fmt.Sprintf("q%05d.smt2", idx), buildQuery(fr, o, false), o, timeout, false)
	o.Seconds += o.Seconds0
}

// raceQuery runs all solvers on q. With onlyUnsat it reports success only for an unsat answer.
func raceQuery(workdir, name, q string, o *Obligation, timeout int, onlyUnsat bool) bool {
	return raceQuerySolvers(workdir, name, q, o, timeout, onlyUnsat, nil)
}

func raceQuerySolvers(workdir, name, q string, o *Obligation, timeout int, onlyUnsat bool, only []solverSpec) bool {
	file := filepath.Join(workdir, name)
	if len(q) > 8<<20 {
		o.Status, o.Solver, o.Model = "undecided", "none", "VC larger than 8 MB"
		return false
	}
	if err := os.WriteFile(file, []byte(q), 0o644); err != nil {
		o.Status, o.Model = "undecided", err.Error()
		return false
	}
	o.Query = file
	ctx, cancel := context.WithCancel(context.Background())
	defer cancel()
	set := append([]solverSpec{}, solvers...)
	if strings.Contains(q, "(forall") || strings.Contains(q, "(exists") {
		set = append(set, fmfSolver)
	}
	if only != nil {
		set = only
	}
	ch := make(chan solveOut, len(set))
	for _, s := range set {
		s := s
		go func() { ch <- runSolver(ctx, s, file, timeout) }()
	}
	var outs []solveOut
	var decisive *solveOut
	for range set {
		r := <-ch
		outs = append(outs, r)
		if r.result == "unsat" || (r.result == "sat" && !onlyUnsat) {
			decisive = &r
			break
		}
		if r.result == "sat" && onlyUnsat {
			// a model of the sliced query proves nothing; go on to the full query at once
			break
		}
	}
	cancel()
	if decisive == nil {
		o.Status = "undecided"
		var parts []string
		o.Seconds = 0
		for _, r := range outs {
			parts = append(parts, fmt.Sprintf("%s: %s (%.1fs)", r.solver, r.result, r.secs))
			if r.secs > o.Seconds {
				o.Seconds = r.secs
			}
		}
		o.Solver = strings.Join(parts, "; ")
		if len(outs) > 0 {
			o.Model = truncate(outs[0].output, 400)
		}
		return false
	}
	o.Solver, o.Seconds = decisive.solver, decisive.secs
	if onlyUnsat {
		o.Solver += "/sliced"
	}
	if decisive.result == o.Expect {
		o.Status = "discharged"
		return true
	}
	o.Status = "refuted"
	if decisive.result == "sat" {
		o.Model = decisive.output
	}
	return true
}

func solveAll(workdir string, frs []*FuncResult, pick func(*Obligation) bool, timeout, parallel int) {
	type job struct {
		fr  *FuncResult
		o   *Obligation
		idx int
	}
	var jobs []job
	n := 0
	for _, fr := range frs {
		for _, o := range fr.Obligations {
			if pick(o) {
				jobs = append(jobs, job{fr, o, n})
				n++
			}
		}
	}
	var wg sync.WaitGroup
	sem := make(chan struct{}, parallel)
	for _, j := range jobs {
		j := j
		wg.Add(1)
		sem <- struct{}{}
		go func() {
			defer wg.Done()
			defer func() { <-sem }()
			// trivial cases without a solver
			if j.o.Expect == "unsat" && (j.o.Cond.s == "true" || j.o.Reach.s == "false") {
				j.o.Status, j.o.Solver = "discharged", "trivial"
				return
			}
			solveOne(workdir, j.idx, j.fr, j.o, timeout)
		}()
	}
	wg.Wait()
}
