package main

// Frame: symbolic execution of one SSA function body (top-level function under contract, or an inlined closure).

import (
	"fmt"
	"go/token"
	"go/types"
	"regexp"
	"sort"
	"strconv"
	"strings"

	"golang.org/x/tools/go/ssa"
)

type closureInfo struct {
	fn       *ssa.Function
	bindings []ssa.Value
	frame    *Frame
}

type retRec struct {
	reach   T
	st      *State
	results []T
	instr   *ssa.Return
}

type deferRec struct {
	instr *ssa.Defer
	armed string // Bool component
}

type edge struct {
	to    *ssa.BasicBlock
	reach T
	st    *State
}

type dryCtx struct {
	start *ssa.BasicBlock
	backs []edge
}

type loopInfo struct {
	ord   int
	spec  *LoopSpec
	phis  []*ssa.Phi
	body  map[*ssa.BasicBlock]bool
	keepN int
}

type Frame struct {
	ex       *Exec
	fn       *ssa.Function
	id       int
	parent   *Frame
	vals     map[ssa.Value]T
	tuples   map[ssa.Value][]T
	lvals    map[ssa.Value]*LV
	closures map[ssa.Value]*closureInfo
	top      bool
	rets     []retRec
	defers   []*deferRec
	entry    *State
	params   map[string]Val // spec-visible bindings (params, receiver)

	order       []*ssa.BasicBlock
	rpoIndex    map[*ssa.BasicBlock]int
	outs        map[*ssa.BasicBlock][]edge
	loops       map[*ssa.BasicBlock]*loopInfo
	loopOrd     map[*ssa.BasicBlock]int
	loopKindOrd map[*ssa.BasicBlock]string
	callOrd     map[ssa.Instruction]int
	callName    map[ssa.Instruction]string
	sendOrd     map[ssa.Instruction]int
	recvOrd     map[ssa.Instruction]int
	mupOrd      map[ssa.Instruction]int
	selOrd      map[ssa.Instruction]int
	selWaits    []T // receive channels of the select being anchored (for waitsOn)
	retOrd      map[ssa.Instruction]int
	curBlock    *ssa.BasicBlock
	curInstr    ssa.Instruction
	dryBacks    []edge
	dryStart    *ssa.BasicBlock
	dryStack    []*dryCtx
	depth       int
}

func (ex *Exec) newFrame(fn *ssa.Function, parent *Frame) *Frame {
	ex.frameN++
	fr := &Frame{ex: ex, fn: fn, id: ex.frameN, parent: parent, vals: map[ssa.Value]T{}, tuples: map[ssa.Value][]T{},
		lvals: map[ssa.Value]*LV{}, closures: map[ssa.Value]*closureInfo{}, params: map[string]Val{},
		outs: map[*ssa.BasicBlock][]edge{}, loops: map[*ssa.BasicBlock]*loopInfo{}}
	if parent != nil {
		fr.depth = parent.depth + 1
		if fr.depth > 6 {
			panic(engineErr("needs-subset", "closure inlining too deep at %s", fn))
		}
	}
	if len(fn.Blocks) == 0 {
		panic(engineErr("needs-subset", "function %s has no body", fn))
	}
	fr.computeOrder()
	return fr
}

func (fr *Frame) computeOrder() {
	fn := fr.fn
	seen := map[*ssa.BasicBlock]bool{}
	var post []*ssa.BasicBlock
	var dfs func(b *ssa.BasicBlock)
	dfs = func(b *ssa.BasicBlock) {
		seen[b] = true
		for _, s := range b.Succs {
			if !seen[s] {
				dfs(s)
			}
		}
		post = append(post, b)
	}
	dfs(fn.Blocks[0])
	fr.rpoIndex = map[*ssa.BasicBlock]int{}
	for i := len(post) - 1; i >= 0; i-- {
		fr.rpoIndex[post[i]] = len(fr.order)
		fr.order = append(fr.order, post[i])
	}
	// loop headers in source order
	var headers []*ssa.BasicBlock
	isH := map[*ssa.BasicBlock]bool{}
	for _, b := range fr.order {
		for _, s := range b.Succs {
			if s.Dominates(b) && !isH[s] {
				isH[s] = true
				headers = append(headers, s)
			}
		}
	}
	sort.Slice(headers, func(i, j int) bool { return fr.blockPos(headers[i]) < fr.blockPos(headers[j]) })
	fr.loopOrd = map[*ssa.BasicBlock]int{}
	fr.loopKindOrd = map[*ssa.BasicBlock]string{}
	kcnt := map[string]int{}
	for i, h := range headers {
		fr.loopOrd[h] = i
		// kind of loop: range over a slice / array / string (hidden index), range over a map or channel (iterator), or
		// a plain for loop; "map 0" etc. keys a loop independently of the order of loops of other kinds
		kind := "for"
		for _, in := range h.Instrs {
			if phi, ok := in.(*ssa.Phi); ok && phi.Comment == "rangeindex" {
				kind = "slice"
			}
			if _, ok := in.(*ssa.Next); ok {
				kind = "map"
			}
		}
		fr.loopKindOrd[h] = fmt.Sprintf("%s %d", kind, kcnt[kind])
		kcnt[kind]++
	}
	// call / send / return ordinals by source position
	type site struct {
		in   ssa.Instruction
		name string
	}
	var calls, sends, rets, recvs, mups, sels []site
	for _, b := range fr.order {
		for _, in := range b.Instrs {
			switch x := in.(type) {
			case *ssa.Call:
				calls = append(calls, site{in, calleeName(&x.Call)})
			case *ssa.Defer:
				calls = append(calls, site{in, calleeName(&x.Call)})
			case *ssa.Go:
				calls = append(calls, site{in, calleeName(&x.Call)})
			case *ssa.Send:
				sends = append(sends, site{in, "send"})
			case *ssa.UnOp:
				if x.Op == token.ARROW {
					recvs = append(recvs, site{in, "recv"})
				}
			case *ssa.Return:
				rets = append(rets, site{in, "return"})
			case *ssa.MapUpdate:
				mups = append(mups, site{in, "mapupdate"})
			case *ssa.Select:
				sels = append(sels, site{in, "select"})
			}
		}
	}
	byPos := func(s []site) {
		sort.SliceStable(s, func(i, j int) bool { return s[i].in.Pos() < s[j].in.Pos() })
	}
	byPos(calls)
	byPos(sends)
	byPos(rets)
	byPos(recvs)
	byPos(mups)
	byPos(sels)
	fr.selOrd = map[ssa.Instruction]int{}
	for i, r := range sels {
		fr.selOrd[r.in] = i
	}
	fr.mupOrd = map[ssa.Instruction]int{}
	for i, r := range mups {
		fr.mupOrd[r.in] = i
	}
	fr.recvOrd = map[ssa.Instruction]int{}
	for i, r := range recvs {
		fr.recvOrd[r.in] = i
	}
	fr.callOrd = map[ssa.Instruction]int{}
	fr.callName = map[ssa.Instruction]string{}
	cnt := map[string]int{}
	for _, c := range calls {
		fr.callOrd[c.in] = cnt[c.name]
		fr.callName[c.in] = c.name
		cnt[c.name]++
	}
	fr.sendOrd = map[ssa.Instruction]int{}
	for i, s := range sends {
		fr.sendOrd[s.in] = i
	}
	fr.retOrd = map[ssa.Instruction]int{}
	for i, s := range rets {
		fr.retOrd[s.in] = i
	}
}

// blockPos: first valid source position in a block (for ordering loops).
func (fr *Frame) blockPos(b *ssa.BasicBlock) int {
	best := int(^uint(0) >> 1)
	for _, in := range b.Instrs {
		if p := in.Pos(); p.IsValid() && int(p) < best {
			best = int(p)
		}
	}
	if best == int(^uint(0)>>1) {
		// fall back to the body blocks' positions
		return b.Index * 1000000000
	}
	return best
}

// calleeName: a short name used in obligation names and `at call N of NAME`.
func calleeName(c *ssa.CallCommon) string {
	if c.IsInvoke() {
		return c.Method.Name()
	}
	switch v := c.Value.(type) {
	case *ssa.Function:
		return v.Name()
	case *ssa.Builtin:
		return v.Name()
	case *ssa.MakeClosure:
		return v.Fn.Name()
	case *ssa.UnOp:
		// a function stored in a struct field is named by the field
		if fa, ok := v.X.(*ssa.FieldAddr); ok {
			if pt, ok := fa.X.Type().Underlying().(*types.Pointer); ok {
				if st, ok := pt.Elem().Underlying().(*types.Struct); ok {
					return st.Field(fa.Field).Name()
				}
			}
		}
	}
	return "dynamic"
}

func (fr *Frame) isBackEdge(from, to *ssa.BasicBlock) bool { return to.Dominates(from) }

func (fr *Frame) hasBackEdgeInto(b *ssa.BasicBlock) bool {
	for _, p := range b.Preds {
		if fr.isBackEdge(p, b) {
			return true
		}
	}
	return false
}

func (fr *Frame) loopBody(h *ssa.BasicBlock) map[*ssa.BasicBlock]bool {
	body := map[*ssa.BasicBlock]bool{h: true}
	var stack []*ssa.BasicBlock
	for _, p := range h.Preds {
		if fr.isBackEdge(p, h) {
			if !body[p] {
				body[p] = true
				stack = append(stack, p)
			}
		}
	}
	for len(stack) > 0 {
		b := stack[len(stack)-1]
		stack = stack[:len(stack)-1]
		for _, p := range b.Preds {
			if !body[p] {
				body[p] = true
				stack = append(stack, p)
			}
		}
	}
	return body
}

// incoming edge i of block b (matching b.Preds[i]).
func (fr *Frame) incoming(b *ssa.BasicBlock, i int) (edge, bool) {
	p := b.Preds[i]
	occ := 0
	for j := 0; j < i; j++ {
		if b.Preds[j] == p {
			occ++
		}
	}
	es := fr.outs[p]
	for _, e := range es {
		if e.to == b {
			if occ == 0 {
				return e, true
			}
			occ--
		}
	}
	return edge{}, false
}

// runRegion executes the blocks of region (nil = whole function) in reverse post-order starting at start.
func (fr *Frame) runRegion(region map[*ssa.BasicBlock]bool, start *ssa.BasicBlock, startReach T, startSt *State, noCutStart bool) {
	ex := fr.ex
	for _, b := range fr.order {
		if region != nil && !region[b] {
			continue
		}
		if fr.rpoIndex[b] < fr.rpoIndex[start] {
			continue
		}
		var reach T
		var st *State
		var edges []edge
		var edgeIdx []int
		if b == start {
			reach, st = startReach, startSt
			delete(fr.outs, b)
		} else {
			for i := range b.Preds {
				p := b.Preds[i]
				if region != nil && !region[p] {
					continue
				}
				if fr.isBackEdge(p, b) {
					continue
				}
				if e, ok := fr.incoming(b, i); ok && e.reach.s != "false" {
					edges = append(edges, e)
					edgeIdx = append(edgeIdx, i)
				}
			}
			delete(fr.outs, b)
			if len(edges) == 0 {
				continue // unreachable
			}
			// tail duplication: a join block that returns is executed once per incoming edge, so that postconditions
			// are stated over unmerged states (far easier for the solvers than ite-merged arrays)
			if _, isRet := b.Instrs[len(b.Instrs)-1].(*ssa.Return); isRet && len(edges) > 1 && len(edges) <= 4 && !fr.hasBackEdgeInto(b) {
				for k, e := range edges {
					nph := 0
					for _, in := range b.Instrs {
						phi, ok := in.(*ssa.Phi)
						if !ok {
							break
						}
						fr.vals[phi] = fr.val(phi.Edges[edgeIdx[k]])
						nph++
					}
					fr.curBlock = b
					fr.execBlock(b, nph, e.reach, e.st.clone())
				}
				continue
			}
			var conds []T
			var sts []*State
			for _, e := range edges {
				conds = append(conds, e.reach)
				sts = append(sts, e.st)
			}
			reach = ex.define(fmt.Sprintf("reach_f%d_b%d", fr.id, b.Index), or(conds...))
			st = ex.mergeStates(conds, sts)
		}
		fr.curBlock = b
		// phi nodes
		var phis []*ssa.Phi
		for _, in := range b.Instrs {
			if phi, ok := in.(*ssa.Phi); ok {
				phis = append(phis, phi)
			} else {
				break
			}
		}
		isHeader := false
		for _, p := range b.Preds {
			if fr.isBackEdge(p, b) {
				isHeader = true
			}
		}
		if b == start && noCutStart {
			for _, phi := range phis {
				fr.vals[phi] = ex.freshOfType(fr.vname(phi), phi.Type(), reach, st)
			}
		} else {
			for _, phi := range phis {
				var t T
				first := true
				for k := len(edges) - 1; k >= 0; k-- {
					v := fr.val(phi.Edges[edgeIdx[k]])
					if first {
						t, first = v, false
					} else {
						t = ite(edges[k].reach, v, t)
					}
				}
				if first {
					// entry of a region without recorded edges (start block of whole function has no phis)
					t = ex.freshOfType(fr.vname(phi), phi.Type(), reach, st)
				}
				fr.vals[phi] = ex.define(fr.vname(phi), t)
			}
			if isHeader {
				reach, st = fr.cutLoop(b, phis, reach, st)
			}
		}
		fr.execBlock(b, len(phis), reach, st)
	}
}

func (fr *Frame) vname(v ssa.Value) string {
	return fmt.Sprintf("f%d_%s", fr.id, v.Name())
}

// cutLoop: assert invariants on entry, havoc what the loop assigns, assume invariants.
func (fr *Frame) cutLoop(h *ssa.BasicBlock, phis []*ssa.Phi, reach T, st *State) (T, *State) {
	ex := fr.ex
	ord := fr.loopOrd[h]
	li := &loopInfo{ord: ord, phis: phis, body: fr.loopBody(h)}
	if fc := fr.contractForLoops(); fc != nil {
		li.spec = fc.Loops[ord]
		if ks := fc.KindLoops[fr.loopKindOrd[h]]; ks != nil {
			if li.spec == nil {
				li.spec = ks
			} else {
				li.spec = &LoopSpec{Invariants: append(append([]*Clause{}, li.spec.Invariants...), ks.Invariants...)}
			}
		}
	}
	where := ex.pos(token0(h))
	// 1. dry run to find the components assigned in the loop
	snapScript, snapRets, snapDefers, snapN := len(ex.script), len(fr.rets), len(fr.defers), ex.n
	savedVals := map[ssa.Value]T{}
	for _, phi := range phis {
		savedVals[phi] = fr.vals[phi]
	}
	savedOuts := fr.outs
	fr.outs = map[*ssa.BasicBlock][]edge{}
	for k, v := range savedOuts {
		fr.outs[k] = v
	}
	ex.dry++
	dc := &dryCtx{start: h}
	fr.dryStack = append(fr.dryStack, dc)
	prevLoop := fr.loops[h]
	delete(fr.loops, h)
	fr.runRegion(li.body, h, reach, st.clone(), true)
	backs := dc.backs
	fr.dryStack = fr.dryStack[:len(fr.dryStack)-1]
	if prevLoop != nil {
		fr.loops[h] = prevLoop
	}
	ex.dry--
	ex.script = ex.script[:snapScript]
	fr.rets = fr.rets[:snapRets]
	fr.defers = fr.defers[:snapDefers]
	fr.outs = savedOuts
	for k, v := range savedVals {
		fr.vals[k] = v
	}
	fr.curBlock = h
	modified := map[string]bool{}
	for _, e := range backs {
		keys := map[string]bool{}
		for k := range e.st.m {
			keys[k] = true
		}
		for k := range keys {
			if ex.get(e.st, k).s != ex.get(st, k).s {
				modified[k] = true
			}
		}
	}
	// 2. invariants hold on entry
	if li.spec != nil {
		for i, c := range li.spec.Invariants {
			env := fr.specEnv(st, fr.entry, h, nil)
			cond := env.evalBool(c)
			ex.oblige(fmt.Sprintf("inv-init:loop%d:%s", ord, clauseName(c, i)), "inv-init", c.Props, reach, cond, where, c.Text)
		}
	}
	// 3. havoc
	preAlloc := ex.get(st, ex.allocComp())
	st = st.clone()
	for _, k := range sortedKeys(modified) {
		// reference-indexed components written only at loop-invariant indices, or at objects allocated inside the
		// loop, keep every other index that was allocated before the loop
		if strings.HasPrefix(ex.comps[k], "(Array Ref") && k != "Alloc" {
			base := ex.get(st, k)
			idxs, ok, anyFresh := []string{}, true, false
			for _, e := range backs {
				ix, fr2, ok2 := ex.writtenIndices(ex.get(e.st, k).s, base.s, snapN)
				if !ok2 {
					ok = false
					break
				}
				anyFresh = anyFresh || fr2
				idxs = append(idxs, ix...)
			}
			if ok && !anyFresh {
				t := base
				seen := map[string]bool{}
				for _, ix := range idxs {
					if seen[ix] {
						continue
					}
					seen[ix] = true
					t = store(t, T{ix, "Ref"}, ex.fresh("hv_"+k, elemSort(ex.comps[k])))
				}
				st.m[k] = ex.define(k, t)
				continue
			}
			if ok {
				a := ex.fresh(k, ex.comps[k])
				var excl []T
				seen := map[string]bool{}
				for _, ix := range idxs {
					if !seen[ix] {
						seen[ix] = true
						excl = append(excl, not(eq(T{"o", "Ref"}, T{ix, "Ref"})))
					}
				}
				guard := and(append([]T{sel(preAlloc, T{"o", "Ref"})}, excl...)...)
				ex.emit(fmt.Sprintf("(assert (forall ((o Ref)) (! (=> %s (= (select %s o) (select %s o))) :pattern ((select %s o)))))", guard.s, a.s, base.s, a.s))
				st.m[k] = a
				continue
			}
		}
		st.m[k] = ex.fresh(k, ex.comps[k])
	}
	// Alloc only grows: keep that fact (needed so that objects known before the loop stay allocated)
	for _, phi := range phis {
		fr.vals[phi] = ex.freshOfType(fr.vname(phi), phi.Type(), reach, st)
		if phi.Comment == "rangeindex" {
			// the hidden index of a range loop starts at -1 and is incremented by one per iteration
			// (and never exceeds the length of the collection, itself at most 2^62)
			ex.assume(tTrue, and(app("Bool", "<=", intLit(-1), fr.vals[phi]), app("Bool", "<=", fr.vals[phi], T{"4611686018427387904", "Int"})))
		}
	}
	if modified["Alloc"] {
		// every value that was allocated before the loop still is: instantiate for phis' entry values is not enough in
		// general; state it as a quantified monotonicity fact (simple pattern).
		ex.emit(fmt.Sprintf("(assert (forall ((o Ref)) (! (=> (select %s o) (select %s o)) :pattern ((select %s o)))))",
			preAlloc.s, st.m["Alloc"].s, st.m["Alloc"].s))
	}
	// 4. assume invariants
	if li.spec != nil {
		for _, c := range li.spec.Invariants {
			env := fr.specEnv(st, fr.entry, h, nil)
			ex.assumeKind("inv", reach, env.evalBool(c))
		}
		ex.cover(fmt.Sprintf("vacuity:loop%d", ord), reach, tTrue, where, "loop head reachable with invariants")
	}
	fr.loops[h] = li
	return reach, st
}

func clauseName(c *Clause, i int) string {
	if c.Label != "" {
		return c.Label
	}
	return fmt.Sprintf("%d", i)
}

// backEdge: at a jump back to header h: invariants are preserved.
func (fr *Frame) backEdge(from, h *ssa.BasicBlock, reach T, st *State) {
	ex := fr.ex
	if fr.loops[h] == nil {
		// a dry run of the loop headed by h is in progress (possibly an enclosing one)
		for i := len(fr.dryStack) - 1; i >= 0; i-- {
			if fr.dryStack[i].start == h {
				fr.dryStack[i].backs = append(fr.dryStack[i].backs, edge{to: h, reach: reach, st: st})
				return
			}
		}
	}
	li := fr.loops[h]
	if li == nil {
		panic(engineErr("internal", "back edge to unprocessed header in %s", fr.fn))
	}
	if li.spec == nil {
		return
	}
	// phi values along this edge
	over := map[*ssa.Phi]T{}
	for i, p := range h.Preds {
		if p != from {
			continue
		}
		for _, phi := range li.phis {
			over[phi] = fr.val(phi.Edges[i])
		}
		break
	}
	for i, c := range li.spec.Invariants {
		env := fr.specEnv(st, fr.entry, h, over)
		cond := env.evalBool(c)
		ex.oblige(fmt.Sprintf("inv-keep:loop%d:%s", li.ord, clauseName(c, i)), "inv-keep", c.Props, reach, cond, ex.pos(token0(h)), c.Text)
	}
}

func (fr *Frame) contractForLoops() *FuncContract {
	// loops of inlined closures are keyed by the closure's own contract entry (if any)
	if fr.top {
		return fr.ex.fc
	}
	return fr.ex.L.contracts.Funcs[fr.fn.String()]
}

var _ = types.Typ

// writtenIndices: the reference indices at which term differs from base, when term is built from base by stores and
// ites only and every index is either loop-invariant (mentions no symbol created after counter snapN) or a reference
// allocated inside the loop (second result true when there is one).
func (ex *Exec) writtenIndices(term, base string, snapN int) ([]string, bool, bool) {
	term = strings.TrimSpace(term)
	if term == base {
		return nil, false, true
	}
	if isAtom(term) {
		if d, ok := ex.defs[term]; ok {
			return ex.writtenIndices(d, base, snapN)
		}
		return nil, false, false
	}
	parts := splitSexpr(term)
	if len(parts) != 4 {
		return nil, false, false
	}
	switch parts[0] {
	case "store":
		rest, fr, ok := ex.writtenIndices(parts[1], base, snapN)
		if !ok {
			return nil, false, false
		}
		if ex.allocSyms[parts[2]] && !ex.loopInvariantTerm(parts[2], snapN) {
			return rest, true, true
		}
		exp, inv := ex.expandInvariant(parts[2], snapN, 0)
		if !inv {
			return nil, false, false
		}
		return append(rest, exp), fr, true
	case "ite":
		a, f1, ok1 := ex.writtenIndices(parts[2], base, snapN)
		b, f2, ok2 := ex.writtenIndices(parts[3], base, snapN)
		if !ok1 || !ok2 {
			return nil, false, false
		}
		return append(a, b...), f1 || f2, true
	}
	return nil, false, false
}

var bangSym = regexp.MustCompile(`[A-Za-z_][A-Za-z0-9_$.]*!(\d+)`)

// expandInvariant rewrites term so that it mentions no symbol created after counter snapN, by unfolding definitions
// made after snapN. ok is false when the term depends on a value that is genuinely new (a fresh constant).
func (ex *Exec) expandInvariant(t string, snapN int, depth int) (string, bool) {
	if depth > 40 {
		return "", false
	}
	ok := true
	out := bangSym.ReplaceAllStringFunc(t, func(sym string) string {
		m := bangSym.FindStringSubmatch(sym)
		n, _ := strconv.Atoi(m[1])
		if n <= snapN {
			return sym
		}
		d, isDef := ex.defs[sym]
		if !isDef {
			ok = false
			return sym
		}
		e, ok2 := ex.expandInvariant(d, snapN, depth+1)
		if !ok2 {
			ok = false
		}
		return e
	})
	return out, ok
}

func (ex *Exec) loopInvariantTerm(t string, snapN int) bool {
	_, ok := ex.expandInvariant(t, snapN, 0)
	return ok
}

// token0: first valid source position of a block.
func token0(b *ssa.BasicBlock) token.Pos {
	for _, in := range b.Instrs {
		if p := in.Pos(); p.IsValid() {
			return p
		}
	}
	for _, s := range b.Succs {
		for _, in := range s.Instrs {
			if p := in.Pos(); p.IsValid() {
				return p
			}
		}
	}
	return token.NoPos
}
