package main

// Contract files: comment-only Go files (//go:build verif) inside /repo/<pkg>/zz_contracts_verif.go
// and assumed library specs in /verif/specs/*.spec (same syntax, every line starts with //@).

import (
	"fmt"
	"os"
	"path/filepath"
	"regexp"
	"sort"
	"strconv"
	"strings"
)

type Clause struct {
	Kind  string // requires ensures invariant assert lemma axiom
	Label string
	Props []string
	Text  string
	Expr  *SExpr
	File  string
	Line  int
}

func (c *Clause) where() string { return fmt.Sprintf("%s:%d", c.File, c.Line) }

type LoopSpec struct {
	Invariants []*Clause
}

type GhostAt struct {
	Ordinal int    // call ordinal among calls to Callee (source order)
	Callee  string // suffix match on callee key; "send" for channel sends; "return" for returns
	Anchor  string // call | send | recv | return | entry
	When    string // "before" or "after"
	Kind    string // "assert", "assume", "set"
	Target  string // for set: ghost location text
	Clause  *Clause
}

type FuncContract struct {
	Key       string
	PkgPath   string // package whose contract file declared it
	Extern    bool   // assumed contract on a dependency (never verified)
	IsIface   bool
	Pure      bool
	Opaque    bool
	Trusted   bool
	NoReturn  bool
	DynOpaque bool // function values received from the caller are called as opaque (assumption: no effect on the verified heap)
	NoFrame   bool // the modifies clause is used at call sites but not checked against the body
	Serves    []string
	Requires  []*Clause
	Ensures   []*Clause
	Invokes   *InvokeSpec // higher-order: the callee calls one of its function arguments at most once
	Assumes   []*Clause   // postconditions assumed at call sites but not proved of the body (explicitly trusted part)
	Modifies  []string
	Safe      map[string]bool
	Loops     map[int]*LoopSpec
	KindLoops map[string]*LoopSpec // "map 0", "slice 1", "for 0": ordinal among the loops of that kind
	Ghosts    []*GhostAt
	Abstract  []string
	File      string
	Line      int
	Used      bool
}

// InvokeSpec: `invokes fn(x) requires <cond over x>`: the callee either does not call fn, or calls it exactly once with
// an argument satisfying cond and returns fn's results as its own; the ghost boolean `invoked` tells which.
type InvokeSpec struct {
	Param  string
	Arg    string
	Clause *Clause
}

type GhostDecl struct {
	Name    string
	Owner   string // for ghost fields: type text; "" for vars
	TypeTxt string
	PkgPath string
	File    string
	Line    int
}

type SpecFunc struct {
	Name    string
	Params  []ParamDecl
	RetTxt  string
	PkgPath string
	Body    *Clause // for pred: macro body
}

type ParamDecl struct{ Name, TypeTxt string }

type Contracts struct {
	Funcs       map[string]*FuncContract
	GhostVars   map[string]*GhostDecl // key: pkgpath + "." + name  (also plain name for global specs)
	GhostFields map[string]*GhostDecl // key: name (field name), resolved by owner type at use
	SpecFuncs   map[string]*SpecFunc
	Preds       map[string]*SpecFunc
	Axioms      []*Clause
	AxiomPkg    map[*Clause]string
	Lemmas      []*Clause
	LemmaPkg    map[*Clause]string
	Defaults    []defaultRule
	Files       []string
	Guarded     map[string]guardDecl // "pkgpath.Type.field" -> mutex field
}

type guardDecl struct {
	Mutex string
	Props []string
	Where string
}

type defaultRule struct {
	Kind string // pure | opaque
	Pat  *regexp.Regexp
	Src  string
}

// lookup: the contract that applies to callee `key` while a function of package callerPkg is verified.
func (cs *Contracts) lookup(key, callerPkg string) *FuncContract {
	if fc, ok := cs.Funcs[callerPkg+"|"+key]; ok {
		return fc
	}
	return cs.Funcs[key]
}

func newContracts() *Contracts {
	return &Contracts{
		Funcs: map[string]*FuncContract{}, GhostVars: map[string]*GhostDecl{}, GhostFields: map[string]*GhostDecl{},
		SpecFuncs: map[string]*SpecFunc{}, Preds: map[string]*SpecFunc{},
		AxiomPkg: map[*Clause]string{}, LemmaPkg: map[*Clause]string{}, Guarded: map[string]guardDecl{},
	}
}

var clauseHead = regexp.MustCompile(`^(requires|ensures|assumes|invariant|assert|assume|lemma|axiom)(\[[^\]]*\])?\s*(.*)$`)

// importsOf scans the non-contract Go files of a package dir for import name -> path.
func importsOf(dir string) map[string]string {
	m := map[string]string{}
	files, _ := filepath.Glob(filepath.Join(dir, "*.go"))
	re := regexp.MustCompile(`^\s*(?:import\s+)?(?:([A-Za-z_][A-Za-z0-9_]*)\s+)?"([^"]+)"\s*$`)
	for _, f := range files {
		if strings.HasSuffix(f, "_test.go") {
			continue
		}
		b, err := os.ReadFile(f)
		if err != nil {
			continue
		}
		inImport := false
		for _, line := range strings.Split(string(b), "\n") {
			l := strings.TrimSpace(line)
			if strings.HasPrefix(l, "import (") {
				inImport = true
				continue
			}
			if inImport && l == ")" {
				inImport = false
				continue
			}
			if inImport || strings.HasPrefix(l, "import ") {
				if mm := re.FindStringSubmatch(l); mm != nil {
					name := mm[1]
					path := mm[2]
					if name == "" {
						name = defaultImportName(path)
					}
					if name != "_" && name != "." {
						m[name] = path
					}
				}
			}
			if strings.HasPrefix(l, "func ") || strings.HasPrefix(l, "type ") {
				break
			}
		}
	}
	return m
}

func defaultImportName(path string) string {
	base := path[strings.LastIndex(path, "/")+1:]
	if m := regexp.MustCompile(`^v[0-9]+$`).MatchString(base); m {
		p := path[:strings.LastIndex(path, "/")]
		base = p[strings.LastIndex(p, "/")+1:]
	}
	return base
}

// normKey resolves a contract key relative to pkgPath with imports.
func normKey(key, pkgPath string, imports map[string]string) string {
	key = strings.TrimSpace(key)
	qual := func(name string) string { // name is Type or pkg.Type or full/path.Type
		if i := strings.LastIndex(name, "."); i >= 0 {
			p := name[:i]
			if full, ok := imports[p]; ok && !strings.Contains(p, "/") {
				return full + name[i:]
			}
			return name
		}
		return pkgPath + "." + name
	}
	if strings.HasPrefix(key, "(") {
		end := strings.Index(key, ")")
		inner := key[1:end]
		rest := key[end+1:]
		star := ""
		if strings.HasPrefix(inner, "*") {
			star = "*"
			inner = inner[1:]
		}
		return "(" + star + qual(inner) + ")" + rest
	}
	// function: name or pkg.name (closures: name$1)
	if i := strings.LastIndex(key, "."); i >= 0 {
		p := key[:i]
		if full, ok := imports[p]; ok && !strings.Contains(p, "/") {
			return full + key[i:]
		}
		return key
	}
	return pkgPath + "." + key
}

func parseLabel(lab string) (label string, props []string) {
	lab = strings.Trim(lab, "[]")
	for _, part := range strings.Split(lab, ";") {
		part = strings.TrimSpace(part)
		if part == "" {
			continue
		}
		if regexp.MustCompile(`^C[0-9]{2,3}( C[0-9]{2,3})*$`).MatchString(part) {
			props = append(props, strings.Fields(part)...)
		} else {
			label = part
		}
	}
	return
}

// loadContractFile parses one file. pkgPath=="" means a global spec file (keys must be fully qualified or use `import`).
func (cs *Contracts) loadContractFile(path, pkgPath string, imports map[string]string) error {
	b, err := os.ReadFile(path)
	if err != nil {
		return err
	}
	cs.Files = append(cs.Files, path)
	if imports == nil {
		imports = map[string]string{}
	}
	var cur *FuncContract
	var lastClause *Clause
	lines := strings.Split(string(b), "\n")
	for i, raw := range lines {
		l := strings.TrimSpace(raw)
		if !strings.HasPrefix(l, "//@") {
			continue
		}
		l = strings.TrimSpace(l[3:])
		if l == "" || strings.HasPrefix(l, "#") {
			continue
		}
		// strip trailing comment  " // ..."
		if j := strings.Index(l, " // "); j >= 0 {
			l = strings.TrimSpace(l[:j])
		}
		fields := strings.Fields(l)
		head := fields[0]
		mk := func(kind, lab, text string) *Clause {
			label, props := parseLabel(lab)
			c := &Clause{Kind: kind, Label: label, Props: props, Text: strings.TrimSpace(text), File: path, Line: i + 1}
			lastClause = c
			return c
		}
		switch {
		case head == "import" && len(fields) == 3:
			imports[fields[1]] = strings.Trim(fields[2], `"`)
			lastClause = nil
		case head == "default" && len(fields) >= 3:
			for _, p := range fields[2:] {
				re, err := regexp.Compile("^" + p + "$")
				if err != nil {
					return fmt.Errorf("%s:%d: bad pattern %q", path, i+1, p)
				}
				cs.Defaults = append(cs.Defaults, defaultRule{Kind: fields[1], Pat: re, Src: fmt.Sprintf("%s:%d", path, i+1)})
			}
			lastClause = nil
		case head == "guarded_by" && len(fields) >= 3:
			// guarded_by Type.field mutexField [Cnn ...]
			cs.Guarded[pkgPath+"."+fields[1]] = guardDecl{Mutex: fields[2], Props: fields[3:], Where: fmt.Sprintf("%s:%d", path, i+1)}
			cur, lastClause = nil, nil
		case head == "ghost" && len(fields) >= 4 && fields[1] == "var":
			d := &GhostDecl{Name: fields[2], TypeTxt: strings.Join(fields[3:], " "), PkgPath: pkgPath, File: path, Line: i + 1}
			if old, dup := cs.GhostVars[d.Name]; dup {
				return fmt.Errorf("%s:%d: ghost variable %q already declared at %s:%d (ghost variable names are global)", path, i+1, d.Name, old.File, old.Line)
			}
			cs.GhostVars[fields[2]] = d
			cur, lastClause = nil, nil
		case head == "ghost" && len(fields) >= 4 && fields[1] == "field":
			on := fields[2]
			j := strings.LastIndex(on, ".")
			d := &GhostDecl{Name: on[j+1:], Owner: on[:j], TypeTxt: strings.Join(fields[3:], " "), PkgPath: pkgPath, File: path, Line: i + 1}
			if old, dup := cs.GhostFields[d.Name]; dup {
				return fmt.Errorf("%s:%d: ghost field name %q already declared at %s:%d (ghost field names are global)", path, i+1, d.Name, old.File, old.Line)
			}
			cs.GhostFields[d.Name] = d
			cur, lastClause = nil, nil
		case head == "specfunc" || head == "pred":
			rest := strings.TrimSpace(l[len(head):])
			op := strings.Index(rest, "(")
			cl := matchParen(rest, op)
			if op < 0 || cl < 0 {
				return fmt.Errorf("%s:%d: bad %s", path, i+1, head)
			}
			sf := &SpecFunc{Name: strings.TrimSpace(rest[:op]), PkgPath: pkgPath}
			for _, p := range splitTop(rest[op+1:cl], ',') {
				p = strings.TrimSpace(p)
				if p == "" {
					continue
				}
				k := strings.IndexAny(p, " \t")
				if k < 0 {
					return fmt.Errorf("%s:%d: bad param %q", path, i+1, p)
				}
				sf.Params = append(sf.Params, ParamDecl{p[:k], strings.TrimSpace(p[k:])})
			}
			tail := strings.TrimSpace(rest[cl+1:])
			if head == "specfunc" {
				sf.RetTxt = tail
				cs.SpecFuncs[sf.Name] = sf
				lastClause = nil
			} else {
				tail = strings.TrimSpace(strings.TrimPrefix(tail, "="))
				sf.Body = mk("pred", "", tail)
				cs.Preds[sf.Name] = sf
			}
			cur = nil
		case head == "axiom" || head == "lemma":
			m := clauseHead.FindStringSubmatch(l)
			c := mk(head, m[2], strings.TrimSpace(strings.TrimPrefix(strings.TrimSpace(m[3]), ":")))
			// allow "axiom name: expr"
			if k := strings.Index(c.Text, ":"); k > 0 && c.Label == "" && regexp.MustCompile(`^[A-Za-z_][A-Za-z0-9_\-]*$`).MatchString(c.Text[:k]) && !strings.HasPrefix(c.Text[k:], "::") {
				c.Label = c.Text[:k]
				c.Text = strings.TrimSpace(c.Text[k+1:])
			}
			if head == "axiom" {
				cs.Axioms = append(cs.Axioms, c)
				cs.AxiomPkg[c] = pkgPath
			} else {
				cs.Lemmas = append(cs.Lemmas, c)
				cs.LemmaPkg[c] = pkgPath
			}
			cur = nil
		case head == "func" || head == "extern" || head == "iface":
			rest := strings.TrimSpace(l[len(head):])
			if head == "extern" {
				rest = strings.TrimSpace(strings.TrimPrefix(rest, "func"))
			}
			isIface := head == "iface"
			if head == "extern" && strings.HasPrefix(rest, "iface ") {
				isIface = true
				rest = strings.TrimSpace(rest[6:])
			}
			var key string
			if isIface {
				// iface Type.Method  -> (pkg.Type).Method
				j := strings.LastIndex(rest, ".")
				key = normKey("("+rest[:j]+")"+rest[j:], pkgPath, imports)
			} else {
				key = normKey(rest, pkgPath, imports)
			}
			cur = &FuncContract{Key: key, PkgPath: pkgPath, Extern: head == "extern" || pkgPath == "", IsIface: isIface,
				Safe: map[string]bool{}, Loops: map[int]*LoopSpec{}, File: path, Line: i + 1}
			// an assumed contract written in a package's file applies only while that package's functions are verified
			if head == "extern" && pkgPath != "" {
				lk := pkgPath + "|" + key
				if old, dup := cs.Funcs[lk]; dup {
					return fmt.Errorf("%s:%d: duplicate extern contract for %s (also %s:%d)", path, i+1, key, old.File, old.Line)
				}
				cs.Funcs[lk] = cur
				lastClause = nil
				continue
			}
			if old, dup := cs.Funcs[key]; dup {
				// package-level contract overrides a global spec; two in same category is an error
				if old.PkgPath != "" && pkgPath != "" && old.PkgPath == pkgPath {
					return fmt.Errorf("%s:%d: duplicate contract for %s (also %s:%d)", path, i+1, key, old.File, old.Line)
				}
				if pkgPath == "" {
					cur = &FuncContract{Safe: map[string]bool{}, Loops: map[int]*LoopSpec{}} // ignored: keep package-specific one
					lastClause = nil
					continue
				}
			}
			cs.Funcs[key] = cur
			lastClause = nil
		case cur != nil && head == "serves":
			cur.Serves = append(cur.Serves, fields[1:]...)
			lastClause = nil
		case cur != nil && (head == "pure" || head == "opaque" || head == "trusted" || head == "noreturn" || head == "noframe" || head == "dyncalls-opaque"):
			switch head {
			case "pure":
				cur.Pure = true
			case "opaque":
				cur.Opaque = true
			case "trusted":
				cur.Trusted = true
			case "noreturn":
				cur.NoReturn = true
			case "noframe":
				cur.NoFrame = true
			case "dyncalls-opaque":
				cur.DynOpaque = true
			}
			lastClause = nil
		case cur != nil && head == "safe":
			for _, s := range fields[1:] {
				cur.Safe[s] = true
			}
			lastClause = nil
		case cur != nil && head == "modifies":
			for _, it := range splitTop(strings.TrimSpace(l[len("modifies"):]), ',') {
				if it = strings.TrimSpace(it); it != "" {
					cur.Modifies = append(cur.Modifies, it)
				}
			}
			lastClause = nil
		case cur != nil && head == "invokes":
			m := regexp.MustCompile(`^invokes\s+(\w+)\((\w+)\)\s+requires\s+(.*)$`).FindStringSubmatch(l)
			if m == nil {
				return fmt.Errorf("%s:%d: expected 'invokes fn(x) requires cond'", path, i+1)
			}
			cur.Invokes = &InvokeSpec{Param: m[1], Arg: m[2], Clause: mk("requires", "", m[3])}
		case cur != nil && head == "abstract":
			cur.Abstract = append(cur.Abstract, strings.TrimSpace(l[len("abstract"):]))
			lastClause = nil
		case cur != nil && head == "loop" && len(fields) >= 4 && (fields[1] == "map" || fields[1] == "slice" || fields[1] == "for"):
			if _, err := strconv.Atoi(fields[2]); err != nil {
				return fmt.Errorf("%s:%d: bad loop ordinal", path, i+1)
			}
			rest := strings.TrimSpace(l[len("loop"):])
			rest = strings.TrimSpace(strings.TrimPrefix(rest, fields[1]))
			rest = strings.TrimSpace(strings.TrimPrefix(rest, fields[2]))
			m := clauseHead.FindStringSubmatch(rest)
			if m == nil || m[1] != "invariant" {
				return fmt.Errorf("%s:%d: expected 'loop KIND N invariant[...] expr'", path, i+1)
			}
			if cur.KindLoops == nil {
				cur.KindLoops = map[string]*LoopSpec{}
			}
			key := fields[1] + " " + fields[2]
			if cur.KindLoops[key] == nil {
				cur.KindLoops[key] = &LoopSpec{}
			}
			cur.KindLoops[key].Invariants = append(cur.KindLoops[key].Invariants, mk("invariant", m[2], m[3]))
		case cur != nil && head == "loop" && len(fields) >= 3:
			n, err := strconv.Atoi(fields[1])
			if err != nil {
				return fmt.Errorf("%s:%d: bad loop ordinal", path, i+1)
			}
			rest := strings.TrimSpace(strings.TrimPrefix(strings.TrimSpace(l[len("loop"):]), fields[1]))
			m := clauseHead.FindStringSubmatch(rest)
			if m == nil || m[1] != "invariant" {
				return fmt.Errorf("%s:%d: expected 'loop N invariant[...] expr'", path, i+1)
			}
			ls := cur.Loops[n]
			if ls == nil {
				ls = &LoopSpec{}
				cur.Loops[n] = ls
			}
			ls.Invariants = append(ls.Invariants, mk("invariant", m[2], m[3]))
		case cur != nil && head == "at":
			// at call N of NAME before|after assert|assume[label] expr      /  at ... set TARGET = expr
			re := regexp.MustCompile(`^at\s+(call|send|recv|mapupdate|select|return|entry)\s+(\d+|all)(?:\s+of\s+(\S+))?\s+(before|after)\s+(assert|assume|set|havoc)(\[[^\]]*\])?\s*(.*)$`)
			m := re.FindStringSubmatch(l)
			if m == nil {
				return fmt.Errorf("%s:%d: bad 'at' clause", path, i+1)
			}
			n, _ := strconv.Atoi(m[2])
			if m[2] == "all" {
				n = -1
			}
			g := &GhostAt{Ordinal: n, Callee: m[3], When: m[4], Kind: m[5], Anchor: m[1]}
			if m[1] != "call" {
				g.Callee = m[1]
			}
			text := m[7]
			if g.Kind == "set" {
				k := strings.Index(text, "=")
				g.Target = strings.TrimSpace(text[:k])
				text = text[k+1:]
			}
			g.Clause = mk(g.Kind, m[6], text)
			cur.Ghosts = append(cur.Ghosts, g)
		case cur != nil && clauseHead.MatchString(l):
			m := clauseHead.FindStringSubmatch(l)
			c := mk(m[1], m[2], m[3])
			switch m[1] {
			case "requires":
				cur.Requires = append(cur.Requires, c)
			case "ensures":
				cur.Ensures = append(cur.Ensures, c)
			case "assumes":
				cur.Assumes = append(cur.Assumes, c)
			default:
				return fmt.Errorf("%s:%d: clause %q not allowed here", path, i+1, m[1])
			}
		default:
			// continuation of the previous clause
			if lastClause != nil {
				lastClause.Text += " " + l
				continue
			}
			return fmt.Errorf("%s:%d: cannot parse contract line: %s", path, i+1, l)
		}
	}
	return nil
}

func matchParen(s string, open int) int {
	if open < 0 {
		return -1
	}
	depth := 0
	for i := open; i < len(s); i++ {
		switch s[i] {
		case '(':
			depth++
		case ')':
			depth--
			if depth == 0 {
				return i
			}
		}
	}
	return -1
}

func splitTop(s string, sep byte) []string {
	var out []string
	depth := 0
	start := 0
	inStr := false
	for i := 0; i < len(s); i++ {
		c := s[i]
		if inStr {
			if c == '\\' {
				i++
			} else if c == '"' {
				inStr = false
			}
			continue
		}
		switch c {
		case '"':
			inStr = true
		case '(', '[', '{':
			depth++
		case ')', ']', '}':
			depth--
		default:
			if c == sep && depth == 0 {
				out = append(out, s[start:i])
				start = i + 1
			}
		}
	}
	out = append(out, s[start:])
	return out
}

// parseAll parses every clause expression eagerly so syntax errors surface at load time.
func (cs *Contracts) parseAll() error {
	var errs []string
	try := func(c *Clause) {
		if c == nil || c.Expr != nil {
			return
		}
		e, err := parseSpecExpr(c.Text)
		if err != nil {
			errs = append(errs, fmt.Sprintf("%s: %v in %q", c.where(), err, c.Text))
			return
		}
		c.Expr = e
	}
	keys := make([]string, 0, len(cs.Funcs))
	for k := range cs.Funcs {
		keys = append(keys, k)
	}
	sort.Strings(keys)
	for _, k := range keys {
		fc := cs.Funcs[k]
		for _, c := range fc.Requires {
			try(c)
		}
		for _, c := range fc.Ensures {
			try(c)
		}
		for _, c := range fc.Assumes {
			try(c)
		}
		if fc.Invokes != nil {
			try(fc.Invokes.Clause)
		}
		for _, l := range fc.Loops {
			for _, c := range l.Invariants {
				try(c)
			}
		}
		for _, l := range fc.KindLoops {
			for _, c := range l.Invariants {
				try(c)
			}
		}
		for _, g := range fc.Ghosts {
			if g.Kind != "havoc" {
				try(g.Clause)
			}
		}
	}
	for _, p := range cs.Preds {
		try(p.Body)
	}
	for _, c := range cs.Axioms {
		try(c)
	}
	for _, c := range cs.Lemmas {
		try(c)
	}
	if len(errs) > 0 {
		return fmt.Errorf("contract syntax errors:\n  %s", strings.Join(errs, "\n  "))
	}
	return nil
}

// ---------------------------------------------------------------------------
// Spec expression AST and parser.

type SExpr struct {
	Kind string // ident int str unary binary call index slice sel quant old paren
	Op   string
	Name string
	X, Y *SExpr
	Z    *SExpr
	Args []*SExpr
	Vars []ParamDecl
	Pos  int
}

type tok struct {
	kind string // id num str op eof
	text string
	pos  int
}

func lexSpec(s string) ([]tok, error) {
	var ts []tok
	i := 0
	ops := []string{"<==>", "==>", "::", "&&", "||", "==", "!=", "<=", ">=", "<<", ">>", "&^", "..", "+", "-", "*", "/", "%", "<", ">", "!", "(", ")", "[", "]", "{", "}", ",", ".", ":", "&", "|", "^", "?"}
	for i < len(s) {
		c := s[i]
		switch {
		case c == ' ' || c == '\t':
			i++
		case c == '"':
			j := i + 1
			for j < len(s) && s[j] != '"' {
				if s[j] == '\\' {
					j++
				}
				j++
			}
			if j >= len(s) {
				return nil, fmt.Errorf("unterminated string")
			}
			ts = append(ts, tok{"str", s[i : j+1], i})
			i = j + 1
		case c >= '0' && c <= '9':
			j := i
			for j < len(s) && (s[j] >= '0' && s[j] <= '9' || s[j] == 'x' || s[j] == '_' || (s[j] >= 'a' && s[j] <= 'f') || (s[j] >= 'A' && s[j] <= 'F')) {
				j++
			}
			ts = append(ts, tok{"num", s[i:j], i})
			i = j
		case c == '_' || (c >= 'a' && c <= 'z') || (c >= 'A' && c <= 'Z'):
			j := i
			for j < len(s) && (s[j] == '_' || s[j] == '$' || (s[j] >= 'a' && s[j] <= 'z') || (s[j] >= 'A' && s[j] <= 'Z') || (s[j] >= '0' && s[j] <= '9')) {
				j++
			}
			ts = append(ts, tok{"id", s[i:j], i})
			i = j
		default:
			matched := false
			for _, op := range ops {
				if strings.HasPrefix(s[i:], op) {
					ts = append(ts, tok{"op", op, i})
					i += len(op)
					matched = true
					break
				}
			}
			if !matched {
				return nil, fmt.Errorf("unexpected character %q at %d", c, i)
			}
		}
	}
	ts = append(ts, tok{"eof", "", len(s)})
	return ts, nil
}

type specParser struct {
	ts  []tok
	i   int
	src string
}

func parseSpecExpr(s string) (e *SExpr, err error) {
	ts, err := lexSpec(s)
	if err != nil {
		return nil, err
	}
	p := &specParser{ts: ts, src: s}
	defer func() {
		if r := recover(); r != nil {
			if pe, ok := r.(parseErr); ok {
				err = fmt.Errorf("%s", string(pe))
				return
			}
			panic(r)
		}
	}()
	e = p.expr(0)
	if p.peek().kind != "eof" {
		p.fail("unexpected %q", p.peek().text)
	}
	return e, nil
}

type parseErr string

func (p *specParser) fail(f string, a ...interface{}) {
	panic(parseErr(fmt.Sprintf(f, a...) + fmt.Sprintf(" at offset %d", p.peek().pos)))
}
func (p *specParser) peek() tok { return p.ts[p.i] }
func (p *specParser) next() tok { t := p.ts[p.i]; p.i++; return t }
func (p *specParser) accept(text string) bool {
	if t := p.peek(); (t.kind == "op" || t.kind == "id") && t.text == text {
		p.i++
		return true
	}
	return false
}
func (p *specParser) expect(text string) {
	if !p.accept(text) {
		p.fail("expected %q, found %q", text, p.peek().text)
	}
}

var binPrec = map[string]int{
	"<==>": 1, "==>": 2, "||": 3, "&&": 4,
	"==": 5, "!=": 5, "<": 5, "<=": 5, ">": 5, ">=": 5, "in": 5,
	"+": 6, "-": 6, "|": 6, "^": 6,
	"*": 7, "/": 7, "%": 7, "<<": 7, ">>": 7, "&": 7, "&^": 7,
}

func (p *specParser) expr(minPrec int) *SExpr {
	lhs := p.unary()
	for {
		t := p.peek()
		if t.kind != "op" && !(t.kind == "id" && t.text == "in") {
			return lhs
		}
		prec, ok := binPrec[t.text]
		if !ok || prec < minPrec {
			return lhs
		}
		p.next()
		var rhs *SExpr
		if t.text == "==>" {
			rhs = p.expr(prec) // right assoc
		} else {
			rhs = p.expr(prec + 1)
		}
		lhs = &SExpr{Kind: "binary", Op: t.text, X: lhs, Y: rhs, Pos: t.pos}
	}
}

func (p *specParser) unary() *SExpr {
	t := p.peek()
	if t.kind == "op" {
		switch t.text {
		case "!", "-", "*", "&":
			p.next()
			x := p.unary()
			return &SExpr{Kind: "unary", Op: t.text, X: x, Pos: t.pos}
		}
	}
	if t.kind == "id" && (t.text == "forall" || t.text == "exists") {
		p.next()
		q := &SExpr{Kind: "quant", Op: t.text, Pos: t.pos}
		// vars: name TYPE {, name TYPE} ::
		for {
			n := p.next()
			if n.kind != "id" {
				p.fail("expected bound variable name")
			}
			// type text: tokens until ',' or '::' at depth 0
			start := p.peek().pos
			depth := 0
			for {
				tt := p.peek()
				if tt.kind == "eof" {
					p.fail("unterminated quantifier")
				}
				if depth == 0 && tt.kind == "op" && (tt.text == "," || tt.text == "::") {
					break
				}
				if tt.text == "[" || tt.text == "(" {
					depth++
				}
				if tt.text == "]" || tt.text == ")" {
					depth--
				}
				p.next()
			}
			end := p.peek().pos
			q.Vars = append(q.Vars, ParamDecl{n.text, strings.TrimSpace(p.src[start:end])})
			if p.accept(",") {
				continue
			}
			p.expect("::")
			break
		}
		q.X = p.expr(0)
		return q
	}
	return p.postfix(p.primary())
}

func (p *specParser) primary() *SExpr {
	t := p.next()
	switch t.kind {
	case "num":
		return &SExpr{Kind: "int", Name: t.text, Pos: t.pos}
	case "str":
		return &SExpr{Kind: "str", Name: t.text, Pos: t.pos}
	case "id":
		return &SExpr{Kind: "ident", Name: t.text, Pos: t.pos}
	case "op":
		if t.text == "(" {
			e := p.expr(0)
			p.expect(")")
			return &SExpr{Kind: "paren", X: e, Pos: t.pos}
		}
		if t.text == "[" { // type like []byte used as an argument: collect raw
			p.expect("]")
			x := p.unary()
			return &SExpr{Kind: "unary", Op: "[]", X: x, Pos: t.pos}
		}
	}
	p.i--
	p.fail("unexpected %q", t.text)
	return nil
}

func (p *specParser) postfix(x *SExpr) *SExpr {
	for {
		t := p.peek()
		if t.kind != "op" {
			return x
		}
		switch t.text {
		case ".":
			p.next()
			n := p.next()
			if n.kind == "op" && n.text == "(" { // type assertion-like x.(T) not supported
				p.fail("type assertion not supported in specs; use typeis(x, T)")
			}
			if n.kind != "id" {
				p.fail("expected field name")
			}
			x = &SExpr{Kind: "sel", X: x, Name: n.text, Pos: t.pos}
		case "(":
			p.next()
			call := &SExpr{Kind: "call", X: x, Pos: t.pos}
			if !p.accept(")") {
				for {
					call.Args = append(call.Args, p.expr(0))
					if p.accept(",") {
						continue
					}
					p.expect(")")
					break
				}
			}
			x = call
		case "[":
			p.next()
			var lo, hi *SExpr
			if p.peek().text != ":" {
				lo = p.expr(0)
			}
			if p.accept(":") {
				if p.peek().text != "]" {
					hi = p.expr(0)
				}
				p.expect("]")
				x = &SExpr{Kind: "slice", X: x, Y: lo, Z: hi, Pos: t.pos}
			} else {
				p.expect("]")
				x = &SExpr{Kind: "index", X: x, Y: lo, Pos: t.pos}
			}
		default:
			return x
		}
	}
}

// typeText renders an expression that was parsed in a type position back into Go type syntax.
func (e *SExpr) typeText() string {
	switch e.Kind {
	case "ident":
		return e.Name
	case "sel":
		return e.X.typeText() + "." + e.Name
	case "unary":
		if e.Op == "*" {
			return "*" + e.X.typeText()
		}
		if e.Op == "[]" {
			return "[]" + e.X.typeText()
		}
	case "paren":
		return e.X.typeText()
	}
	return "?"
}
