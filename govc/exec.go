package main

// Exec: VC generation context for one function under contract.

import (
	"fmt"
	"go/token"
	"go/types"
	"os"
	"sort"
	"strings"

	"golang.org/x/tools/go/ssa"
)

type Obligation struct {
	Name   string
	Kind   string
	Props  []string
	Fn     string
	Prefix int // number of script lines that precede this obligation
	Reach  T
	Cond   T
	Where  string
	Text   string
	Expect string // "unsat" (normal obligation) or "sat" (vacuity guard)

	// results
	Status   string // discharged | refuted | undecided
	Solver   string
	Seconds  float64
	Seconds0 float64
	Model    string
	Query    string
}

type Exec struct {
	ghostUsed map[*GhostAt]bool // anchors of the contract under verification that matched an instruction
	L        *Loaded
	inInit   bool // verifying a package initialiser: package-level variables are ordinary mutable cells
	sorts    *Sorts
	decls    []string
	declared map[string]bool
	script   []string
	obls     []*Obligation
	n        int
	dry      int
	strLits  map[string]string
	strOrder []string
	comps    map[string]string
	subTags  map[string]int
	subSeen  map[string]bool

	assumed      map[string]bool // assumptions used (for evidence)
	abstractions map[string]bool
	errGlobals   []string
	immGlobals   map[string]bool
	concTypes    []types.Type
	ifaceTypes   []types.Type
	boxed        map[string]bool

	fc            *FuncContract
	fnKey         string
	pkg           *types.Package
	nameCnt       map[string]int
	frameN        int
	pendingTag0   []string
	inlineDefs    bool
	rangeInst     map[string]bool
	allocSyms     map[string]bool
	pureInst      map[string]bool
	defs          map[string]string
	escaped       map[string]*LV
	specFuncsUsed []string
}

func newExec(L *Loaded, fc *FuncContract, pkg *types.Package) *Exec {
	ex := &Exec{L: L, declared: map[string]bool{}, strLits: map[string]string{}, comps: map[string]string{},
		subTags: map[string]int{}, subSeen: map[string]bool{}, assumed: map[string]bool{}, abstractions: map[string]bool{},
		immGlobals: map[string]bool{}, defs: map[string]string{}, rangeInst: map[string]bool{}, allocSyms: map[string]bool{}, pureInst: map[string]bool{}, boxed: map[string]bool{}, fc: fc, pkg: pkg, nameCnt: map[string]int{}}
	ex.sorts = newSorts(ex)
	curDefs = ex.defs
	return ex
}

func (ex *Exec) emit(line string) { ex.script = append(ex.script, line) }

func (ex *Exec) freshName(prefix string) string {
	ex.n++
	return fmt.Sprintf("%s!%d", sanitize(prefix), ex.n)
}

// fresh declares an unconstrained constant.
func (ex *Exec) fresh(prefix, sort string) T {
	n := ex.freshName(prefix)
	ex.decls = append(ex.decls, fmt.Sprintf("(declare-const %s %s)", n, sort))
	return T{n, sort}
}

func isAtom(s string) bool { return !strings.ContainsAny(s, " (") }

// define names a term (define-fun) so later uses stay small.
func (ex *Exec) define(prefix string, t T) T {
	if isAtom(t.s) || ex.inlineDefs {
		return t
	}
	n := ex.freshName(prefix)
	ex.defs[n] = t.s
	ex.emit(fmt.Sprintf("(define-fun %s () %s %s)", n, t.sort, t.s))
	return T{n, t.sort}
}

func (ex *Exec) assume(reach, cond T) {
	if cond.s == "true" {
		return
	}
	ex.emit(fmt.Sprintf("(assert %s)", implies(reach, cond).s))
}

// assumeKind tags the assumption with where it comes from (lemma: proved anchored assertion; inv: loop invariant;
// pre: precondition; post: callee postcondition) so that the solver can be offered reduced sets of quantified facts.
func (ex *Exec) assumeKind(kind string, reach, cond T) {
	if cond.s == "true" {
		return
	}
	// a conjunction is asserted conjunct by conjunct: the cone-of-influence slicer and the quantifier tiers can then
	// pick the facts an obligation needs instead of one monolithic (often nested-quantifier) formula
	parts := []string{cond.s}
	if os.Getenv("GOVC_SPLIT") != "" { // experimental: conjunct-wise assumptions helped some goals and hurt others
		parts = splitConj(cond.s)
	}
	for _, c := range parts {
		ex.emit(fmt.Sprintf("(assert %s) ;@%s", implies(reach, T{c, "Bool"}).s, kind))
	}
}

// splitConj: the conjuncts of a term of the form (and a b ...), recursively; anything else is a single conjunct.
func splitConj(s string) []string {
	s = strings.TrimSpace(s)
	if !strings.HasPrefix(s, "(and ") || !strings.HasSuffix(s, ")") {
		return []string{s}
	}
	body := s[5 : len(s)-1]
	var out []string
	depth, start := 0, -1
	inBar := false
	for i := 0; i < len(body); i++ {
		ch := body[i]
		if ch == '|' {
			inBar = !inBar
		}
		if inBar {
			if start < 0 {
				start = i
			}
			continue
		}
		switch {
		case ch == '(':
			if depth == 0 && start < 0 {
				start = i
			}
			depth++
		case ch == ')':
			depth--
			if depth < 0 {
				return []string{s} // "(and ..." was not the outermost term
			}
			if depth == 0 && start >= 0 && body[start] == '(' {
				out = append(out, splitConj(body[start:i+1])...)
				start = -1
			}
		case ch == ' ' || ch == '\n' || ch == '\t':
			if depth == 0 && start >= 0 {
				out = append(out, body[start:i])
				start = -1
			}
		default:
			if depth == 0 && start < 0 {
				start = i
			}
		}
	}
	if depth != 0 {
		return []string{s}
	}
	if start >= 0 {
		out = append(out, body[start:])
	}
	if len(out) == 0 {
		return []string{s}
	}
	return out
}

func (ex *Exec) oblige(name, kind string, props []string, reach, cond T, where, text string) {
	if ex.dry > 0 {
		return
	}
	if cond.s == "true" || reach.s == "false" {
		// trivially discharged; still counted so a change that makes it non-trivial is visible
	}
	ex.nameCnt[name]++
	if c := ex.nameCnt[name]; c > 1 {
		name = fmt.Sprintf("%s#%d", name, c)
	}
	if len(props) == 0 {
		props = ex.fc.Serves
	}
	ex.obls = append(ex.obls, &Obligation{Name: ex.fnShort() + "#" + name, Kind: kind, Props: props, Fn: ex.fnKey,
		Prefix: len(ex.script), Reach: reach, Cond: cond, Where: where, Text: text, Expect: "unsat"})
}

func (ex *Exec) cover(name string, reach, cond T, where, text string) {
	if ex.dry > 0 {
		return
	}
	ex.nameCnt[name]++
	if c := ex.nameCnt[name]; c > 1 {
		name = fmt.Sprintf("%s#%d", name, c)
	}
	ex.obls = append(ex.obls, &Obligation{Name: ex.fnShort() + "#" + name, Kind: "vacuity", Props: ex.fc.Serves, Fn: ex.fnKey,
		Prefix: len(ex.script), Reach: reach, Cond: cond, Where: where, Text: text, Expect: "sat"})
}

func (ex *Exec) fnShort() string { return shortKey(ex.fnKey) }

// shortKey: (*github.com/google/martian/v3/marbl.Reader).ReadFrame -> marbl.Reader.ReadFrame
func shortKey(key string) string {
	k := key
	k = strings.ReplaceAll(k, "github.com/google/martian/v3/", "")
	k = strings.ReplaceAll(k, "github.com/google/martian/v3.", "martian.")
	k = strings.ReplaceAll(k, "(*", "")
	k = strings.ReplaceAll(k, "(", "")
	k = strings.ReplaceAll(k, ")", "")
	return k
}

// freshOfType: arbitrary value of a Go type, with range / allocation assumptions.
func (ex *Exec) freshOfType(prefix string, ty types.Type, reach T, st *State) T {
	v := ex.fresh(prefix, ex.sorts.sortOf(ty))
	ex.assumeWellTyped(v, ty, reach, st)
	return v
}

// assumeWellTyped: type invariants of an arbitrary value (integer range, string length, slice shape, allocatedness).
func (ex *Exec) assumeWellTyped(v T, ty types.Type, reach T, st *State) {
	ty = types.Unalias(ty)
	switch u := ty.Underlying().(type) {
	case *types.Basic:
		if u.Info()&types.IsInteger != 0 {
			ex.assume(tTrue, inRange(v, ty))
		} else if u.Info()&types.IsString != 0 {
			ex.assume(tTrue, app("Bool", ">=", app("Int", "len$Str", v), intLit(0)))
			ex.assume(tTrue, eq(eq(app("Int", "len$Str", v), intLit(0)), eq(v, T{"str$empty", "Str"})))
		}
	case *types.Slice:
		ln, cp, off := app("Int", "sl$len", v), app("Int", "sl$cap", v), app("Int", "sl$off", v)
		// no object is larger than the allocator limit (2^47 bytes on linux/amd64)
		sz := ex.L.sizes.Sizeof(u.Elem())
		if sz < 1 {
			sz = 1
		}
		lim := intLit(maxAlloc / sz)
		ex.assume(tTrue, and(app("Bool", "<=", intLit(0), ln), app("Bool", "<=", ln, cp), app("Bool", "<=", intLit(0), off),
			app("Bool", "<=", app("Int", "+", off, cp), lim)))
		ex.assume(tTrue, implies(eq(app("Ref", "sl$arr", v), tNil), eq(cp, intLit(0))))
		if st != nil {
			ex.assume(reach, or(eq(app("Ref", "sl$arr", v), tNil), sel(ex.get(st, ex.allocComp()), app("Ref", "sl$arr", v))))
		}
	case *types.Pointer, *types.Map, *types.Chan, *types.Signature:
		if st != nil {
			ex.assume(reach, or(eq(v, tNil), sel(ex.get(st, ex.allocComp()), v)))
		}
	case *types.Interface:
		ex.assume(tTrue, app("Bool", ">=", app("Int", "if$typ", v), intLit(0)))
		ex.assume(tTrue, implies(eq(app("Int", "if$typ", v), intLit(0)), eq(app("Ref", "if$ref", v), tNil)))
		if st != nil {
			r := app("Ref", "if$ref", v)
			ex.assume(reach, or(eq(r, tNil), sel(ex.get(st, ex.allocComp()), r)))
		}
	case *types.Struct:
		s := ex.sorts.sortOf(ty)
		for i := 0; i < u.NumFields(); i++ {
			f := u.Field(i)
			switch f.Type().Underlying().(type) {
			case *types.Basic, *types.Slice, *types.Struct:
				fv := app(ex.sorts.sortOf(f.Type()), ex.sorts.fieldAcc(s[2:], i, f), v)
				ex.assumeWellTyped(fv, f.Type(), reach, st)
			}
		}
	}
}

// allocRef returns a fresh non-nil reference not allocated in st, and marks it allocated.
func (ex *Exec) allocRef(st *State, reach T, prefix string) T {
	r := ex.fresh(prefix, "Ref")
	ex.allocSyms[r.s] = true
	ac := ex.allocComp()
	a := ex.get(st, ac)
	ex.assume(reach, and(not(eq(r, tNil)), not(sel(a, r))))
	ex.pendingTag0 = append(ex.pendingTag0, r.s)
	ex.set(st, ac, store(a, r, tTrue))
	return r
}

// zeroInit stores zero values into the object at lv.
func (ex *Exec) zeroInit(st *State, lv *LV) {
	switch lv.kind {
	case "comp":
		ex.storeLV(st, lv, ex.sorts.zero(lv.typ))
	case "struct":
		u := lv.typ.Underlying().(*types.Struct)
		for i := 0; i < u.NumFields(); i++ {
			ex.zeroInit(st, ex.fieldLV(lv, i))
		}
		ex.zeroGhostFields(st, lv.ref, lv.typ)
	case "array":
		ex.storeLV(st, lv, ex.sorts.zero(lv.typ))
	}
}

// zeroGhostFields: ghost fields of a freshly allocated object start at their zero value.
func (ex *Exec) zeroGhostFields(st *State, ref T, ty types.Type) {
	full := typeName(ty)
	short := full
	if i := strings.LastIndex(full, "."); i >= 0 {
		short = full[i+1:]
	}
	var names []string
	for n := range ex.L.contracts.GhostFields {
		names = append(names, n)
	}
	sort.Strings(names)
	for _, n := range names {
		g := ex.L.contracts.GhostFields[n]
		if g.Owner != full && g.Owner != short {
			continue
		}
		env := &Env{ex: ex, cur: st, old: st, vars: map[string]Val{}, pkgPath: g.PkgPath, callerPkg: ex.pkg}
		comp, gty := env.ghostFieldComp(g)
		var z T
		if gty != nil {
			z = ex.sorts.zero(gty)
		} else {
			es := elemSort(ex.comps[comp])
			if strings.HasPrefix(es, "(Array") && elemSort(es) == "Bool" {
				z = ex.constArray(domSort(es), "Bool", tFalse)
			} else {
				continue
			}
		}
		ex.set(st, comp, store(ex.get(st, comp), ref, z))
	}
}

// registerConcrete / registerIface maintain impl$I(tid) facts.
func (ex *Exec) implFn(it types.Type) string {
	name := "impl$" + sanitize(typeName(it))
	if _, ok := it.(*types.Named); !ok {
		name = "impl$" + sanitize(it.String())
	}
	if !ex.declared[name] {
		ex.declared[name] = true
		ex.decls = append(ex.decls, fmt.Sprintf("(declare-fun %s (Int) Bool)", name), fmt.Sprintf("(assert (not (%s 0)))", name))
		ex.ifaceTypes = append(ex.ifaceTypes, it)
		for _, c := range ex.concTypes {
			ex.implFact(c, it)
		}
	}
	return name
}

func (ex *Exec) implFact(c, it types.Type) {
	iface, ok := it.Underlying().(*types.Interface)
	if !ok {
		return
	}
	name := ex.implFn(it)
	v := "false"
	if types.Implements(c, iface) {
		v = "true"
	}
	ex.decls = append(ex.decls, fmt.Sprintf("(assert (= (%s %d) %s))", name, ex.sorts.tid(c), v))
}

func (ex *Exec) registerConcrete(c types.Type) int {
	id := ex.sorts.tid(c)
	for _, k := range ex.concTypes {
		if types.Identical(k, c) {
			return id
		}
	}
	ex.concTypes = append(ex.concTypes, c)
	for _, it := range ex.ifaceTypes {
		ex.implFact(c, it)
	}
	return id
}

// mkIface boxes a concrete value into an interface value.
func (ex *Exec) mkIface(v T, ty types.Type) T {
	if _, isI := ty.Underlying().(*types.Interface); isI {
		return v
	}
	id := ex.registerConcrete(ty)
	if isRefLike(ty) {
		// a nil pointer in an interface is a non-nil interface
		return app("Iface", "mk$Iface", intLit(int64(id)), v)
	}
	s := ex.sorts.sortOf(ty)
	bn := "box$" + ex.sortName(s) + fmt.Sprintf("$%d", id)
	un := "un" + bn
	if !ex.declared[bn] {
		ex.declared[bn] = true
		ex.decls = append(ex.decls, fmt.Sprintf("(declare-fun %s (%s) Ref)", bn, s), fmt.Sprintf("(declare-fun %s (Ref) %s)", un, s))
	}
	b := app("Ref", bn, v)
	key := b.s
	if !ex.boxed[key] && isAtom(v.s) {
		ex.boxed[key] = true
	}
	ex.emit(fmt.Sprintf("(assert (= (%s %s) %s))", un, b.s, v.s))
	return app("Iface", "mk$Iface", intLit(int64(id)), b)
}

// unIface extracts the payload of concrete type ty from interface value x.
func (ex *Exec) unIface(x T, ty types.Type) T {
	id := ex.registerConcrete(ty)
	if isRefLike(ty) {
		return app("Ref", "if$ref", x)
	}
	s := ex.sorts.sortOf(ty)
	bn := "box$" + ex.sortName(s) + fmt.Sprintf("$%d", id)
	un := "un" + bn
	if !ex.declared[bn] {
		ex.declared[bn] = true
		ex.decls = append(ex.decls, fmt.Sprintf("(declare-fun %s (%s) Ref)", bn, s), fmt.Sprintf("(declare-fun %s (Ref) %s)", un, s))
	}
	return app(s, un, app("Ref", "if$ref", x))
}

// globalTerm: reference of a package-level variable.
func (ex *Exec) globalRef(g *ssa.Global) T {
	name := "g$" + sanitize(g.Pkg.Pkg.Name()+"."+g.Name())
	if !ex.declared[name] {
		ex.declared[name] = true
		ex.allocComp()
		ex.decls = append(ex.decls, fmt.Sprintf("(declare-const %s Ref)", name), fmt.Sprintf("(assert (not (= %s nil)))", name),
			fmt.Sprintf("(assert (select Alloc$init %s))", name))
		// a package-level variable is an object of its own, not part of another object
		ex.pendingTag0 = append(ex.pendingTag0, name)
	}
	return T{name, "Ref"}
}

// immutableGlobalValue: value of a package-level variable that is never assigned outside init (error sentinels etc).
func (ex *Exec) immutableGlobalValue(g *ssa.Global) (T, bool) {
	if ex.inInit || !ex.L.globalImmutable(g) {
		return T{}, false
	}
	elem := g.Type().(*types.Pointer).Elem()
	if isStruct(elem) || isArray(elem) {
		return T{}, false
	}
	s := ex.sorts.sortOf(elem)
	name := "gv$" + sanitize(g.Pkg.Pkg.Name()+"."+g.Name())
	if !ex.declared[name] {
		ex.declared[name] = true
		ex.decls = append(ex.decls, fmt.Sprintf("(declare-const %s %s)", name, s))
		v := T{name, s}
		if s == "Iface" {
			ex.decls = append(ex.decls, fmt.Sprintf("(assert (and (> (if$typ %s) 0) (not (= (if$ref %s) nil))))", name, name))
			ex.errGlobals = append(ex.errGlobals, name)
			ex.assumed["immutable package-level interface variable "+g.Pkg.Pkg.Name()+"."+g.Name()+" is non-nil and distinct from the other sentinels"] = true
		} else {
			ex.assumed["package-level variable "+g.Pkg.Pkg.Name()+"."+g.Name()+" is never reassigned after init (checked for loaded packages, assumed for dependencies)"] = true
			// what a package-level variable refers to exists when the function is entered
			ex.allocComp()
			switch s {
			case "Ref":
				ex.decls = append(ex.decls, fmt.Sprintf("(assert (or (= %s nil) (select Alloc$init %s)))", v.s, v.s))
			case "Slice":
				ex.decls = append(ex.decls, fmt.Sprintf("(assert (or (= (sl$arr %s) nil) (select Alloc$init (sl$arr %s))))", v.s, v.s),
					fmt.Sprintf("(assert (and (<= 0 (sl$len %s)) (<= (sl$len %s) (sl$cap %s)) (<= 0 (sl$off %s))))", v.s, v.s, v.s, v.s))
			}
		}
	}
	return T{name, s}, true
}

func (ex *Exec) finalDecls() []string {
	out := append([]string{}, ex.decls...)
	if d := ex.strDistinct(); d != "" {
		out = append(out, d)
	}
	if len(ex.errGlobals) > 1 {
		var refs []string
		for _, g := range ex.errGlobals {
			refs = append(refs, "(if$ref "+g+")")
		}
		out = append(out, "(assert (distinct "+strings.Join(refs, " ")+"))")
	}
	if ex.declared["sub$owner"] {
		for _, r := range ex.pendingTag0 {
			out = append(out, fmt.Sprintf("(assert (= (sub$tag %s) 0))", r))
		}
	}
	return out
}

func (ex *Exec) pos(p token.Pos) string {
	if !p.IsValid() {
		return "?"
	}
	ps := ex.L.fset.Position(p)
	return fmt.Sprintf("%s:%d", strings.TrimPrefix(ps.Filename, "/repo/"), ps.Line)
}

func sortedKeys(m map[string]bool) []string {
	var ks []string
	for k := range m {
		ks = append(ks, k)
	}
	sort.Strings(ks)
	return ks
}
