package main

// Calls: builtins, inlined closures, calls by contract, defaults for dependencies.

import (
	"fmt"
	"go/types"
	"strings"

	"golang.org/x/tools/go/ssa"
)

func (fr *Frame) noReturn(c *ssa.CallCommon) bool {
	if fc := fr.lookupContract(c); fc != nil && fc.NoReturn {
		return true
	}
	return false
}

// calleeKey: the contract key of a call.
func calleeKey(c *ssa.CallCommon) string {
	if c.IsInvoke() {
		recv := c.Method.Type().(*types.Signature).Recv()
		return "(" + typeKey(recv.Type()) + ")." + c.Method.Name()
	}
	if f := c.StaticCallee(); f != nil {
		return fnKeyOf(f)
	}
	// call of a function stored in a struct field: keyed like a method of the struct, `(*pkg.T).field`
	if u, ok := c.Value.(*ssa.UnOp); ok {
		if fa, ok := u.X.(*ssa.FieldAddr); ok {
			if pt, ok := fa.X.Type().Underlying().(*types.Pointer); ok {
				if st, ok := pt.Elem().Underlying().(*types.Struct); ok {
					return "(*" + typeKey(pt.Elem()) + ")." + st.Field(fa.Field).Name()
				}
			}
		}
	}
	return ""
}

// fnKeyOf: key of an ssa function; methods of instantiated/embedded wrappers map to their declared object.
func fnKeyOf(f *ssa.Function) string {
	if f.Synthetic != "" && f.Object() != nil {
		// wrapper / thunk: use the underlying declared method
		if o, ok := f.Object().(*types.Func); ok {
			return funcObjKey(o)
		}
	}
	return f.String()
}

func funcObjKey(o *types.Func) string {
	sig := o.Type().(*types.Signature)
	if r := sig.Recv(); r != nil {
		return "(" + typeKey(r.Type()) + ")." + o.Name()
	}
	if o.Pkg() != nil {
		return o.Pkg().Path() + "." + o.Name()
	}
	return o.Name()
}

func typeKey(t types.Type) string {
	t = types.Unalias(t)
	switch x := t.(type) {
	case *types.Pointer:
		return "*" + typeKey(x.Elem())
	case *types.Named:
		o := x.Obj()
		if o.Pkg() != nil {
			return o.Pkg().Path() + "." + o.Name()
		}
		return o.Name()
	}
	return t.String()
}

func (fr *Frame) lookupContract(c *ssa.CallCommon) *FuncContract {
	key := calleeKey(c)
	if key == "" {
		return nil
	}
	return fr.ex.L.contracts.lookup(key, fr.ex.fc.PkgPath)
}

func (fr *Frame) call(site ssa.Instruction, c *ssa.CallCommon, reach T, st *State) []T {
	ex := fr.ex
	// builtins
	if b, ok := c.Value.(*ssa.Builtin); ok {
		bind := map[string]Val{}
		for i, a := range c.Args {
			if _, isLV := fr.lvals[a]; !isLV {
				bind[fmt.Sprintf("arg%d", i)] = Val{t: fr.val(a), typ: a.Type()}
			}
		}
		fr.ghostAt("call", fr.callOrd[site], b.Name(), "before", reach, st, bind)
		res := fr.builtin(site, b, c, reach, st)
		if len(res) == 1 {
			if v, ok := site.(ssa.Value); ok {
				bind["result"] = Val{t: res[0], typ: v.Type()}
			}
		}
		fr.ghostAt("call", fr.callOrd[site], b.Name(), "after", reach, st, bind)
		return res
	}
	// statically known closures: inline
	if mc, ok := c.Value.(*ssa.MakeClosure); ok {
		ci := fr.closures[mc]
		if ci == nil {
			ci = &closureInfo{fn: mc.Fn.(*ssa.Function), bindings: mc.Bindings, frame: fr}
		}
		return fr.inline(site, ci, c.Args, reach, st)
	}
	if f, ok := c.Value.(*ssa.Function); ok && f.Parent() != nil && len(f.Blocks) > 0 {
		if fc := ex.L.contracts.Funcs[f.String()]; fc == nil {
			return fr.inline(site, &closureInfo{fn: f, frame: fr}, c.Args, reach, st)
		}
	}
	var args []Val
	var recvNames []string
	sig := c.Signature()
	if c.IsInvoke() {
		args = append(args, Val{t: fr.val(c.Value), typ: c.Value.Type()})
		fr.safety("nil", site, reach, not(eq(app("Int", "if$typ", fr.val(c.Value)), intLit(0))), "method call on nil interface "+c.Value.Name())
	}
	for _, a := range c.Args {
		v := Val{typ: a.Type()}
		if lv, ok := fr.lvals[a]; ok && lv.kind == "comp" {
			v.lv = lv
			v.t = fr.escapeLV(a, lv)
		} else {
			v.t = fr.val(a)
		}
		args = append(args, v)
	}
	_ = recvNames
	// a closure handed to a callee that is not inlined may run any number of times: everything it can assign is havoced
	if hc := fr.lookupContract(c); hc == nil || hc.Invokes == nil {
		for _, a := range c.Args {
			if mc, ok := a.(*ssa.MakeClosure); ok {
				fr.havocClosureEffects(site, mc, reach, st)
			}
		}
	}
	key := calleeKey(c)
	fc := ex.L.contracts.lookup(key, ex.fc.PkgPath)
	name := fr.callName[site]
	ord := fr.callOrd[site]
	fr.ghostAt("call", ord, name, "before", reach, st, fr.argBindings(c, args))
	var res []T
	if _, isB := c.Value.(*ssa.Builtin); fc == nil && key != "" && !isB && !c.IsInvoke() && c.StaticCallee() == nil && ex.fc.DynOpaque {
		key = "" // a function value read from a struct field, without a contract of its own: a dynamic call
	}
	switch {
	case fc != nil:
		res = fr.applyContract(site, fc, key, c, sig, args, reach, st)
	case key != "":
		res = fr.applyDefault(site, key, c, sig, args, reach, st)
	default:
		// dynamic call of a function value: closure known in this frame?
		if ci := fr.findClosure(c.Value); ci != nil {
			res = fr.inline(site, ci, c.Args, reach, st)
		} else if ex.fc.DynOpaque {
			fr.safety("nil", site, reach, not(eq(fr.val(c.Value), tNil)), "call of nil function value "+c.Value.Name())
			ex.assumed["function value supplied by the caller is called as opaque (assumed without effect on the verified heap) at "+ex.pos(site.Pos())] = true
			for i := 0; i < sig.Results().Len(); i++ {
				rt := sig.Results().At(i).Type()
				res = append(res, ex.freshOfType(fmt.Sprintf("f%d_dyn_%d_r%d", fr.id, fr.callOrd[site], i), rt, tTrue, nil))
			}
		} else if fr.libraryFuncValue(c.Value) {
			// a function value handed out by a library call (e.g. a context.CancelFunc): calling it is a library call
			// without effect on the module's heap (recorded as an assumption)
			ex.assumed["function value returned by a library call is called (assumed without effect on the verified heap) at "+ex.pos(site.Pos())] = true
			for i := 0; i < sig.Results().Len(); i++ {
				rt := sig.Results().At(i).Type()
				res = append(res, ex.freshOfType(fmt.Sprintf("f%d_dyn_%d_r%d", fr.id, fr.callOrd[site], i), rt, tTrue, nil))
			}
		} else {
			panic(engineErr("needs-spec", "dynamic call of function value %s at %s in %s", c.Value.Name(), ex.pos(site.Pos()), fr.fn))
		}
	}
	fr.lockReacquire(key, c, reach, st)
	b := fr.argBindings(c, args)
	for i, r := range res {
		b[fmt.Sprintf("result%d", i)] = Val{t: r, typ: sig.Results().At(i).Type()}
		if len(res) == 1 {
			b["result"] = b["result0"]
		}
	}
	fr.ghostAt("call", ord, name, "after", reach, st, b)
	return res
}

func (fr *Frame) findClosure(v ssa.Value) *closureInfo {
	for f := fr; f != nil; f = f.parent {
		if ci, ok := f.closures[v]; ok {
			return ci
		}
	}
	return nil
}

// argBindings: parameter-name bindings of a call for spec evaluation.
func (fr *Frame) argBindings(c *ssa.CallCommon, args []Val) map[string]Val {
	b := map[string]Val{}
	var sig *types.Signature
	var names []string
	if c.IsInvoke() {
		sig = c.Method.Type().(*types.Signature)
		names = append(names, "self")
	} else if f := c.StaticCallee(); f != nil {
		sig = f.Signature
		if sig.Recv() != nil {
			n := sig.Recv().Name()
			if n == "" || n == "_" {
				n = "self"
			}
			names = append(names, n)
		}
	} else {
		sig = c.Signature()
	}
	for i := 0; i < sig.Params().Len(); i++ {
		n := sig.Params().At(i).Name()
		if n == "" || n == "_" {
			n = fmt.Sprintf("arg%d", i)
		}
		names = append(names, n)
	}
	for i, a := range args {
		if i < len(names) {
			b[names[i]] = a
			if i == 0 && len(names) > sig.Params().Len() {
				b["self"] = a
			}
		}
	}
	for i, a := range args {
		off := len(names) - sig.Params().Len()
		if i >= off {
			b[fmt.Sprintf("arg%d", i-off)] = a
		}
	}
	return b
}

// applyContract: assert pre, havoc modifies, assume post.
func (fr *Frame) applyContract(site ssa.Instruction, fc *FuncContract, key string, c *ssa.CallCommon, sig *types.Signature, args []Val, reach T, st *State) []T {
	ex := fr.ex
	fc.Used = true
	if fc.Extern || fc.Trusted {
		ex.assumed["assumed contract: "+shortKey(key)+" ("+relPath(fc.File)+fmt.Sprintf(":%d)", fc.Line)] = true
	}
	name := fr.callName[site]
	if len(fc.Modifies) == 0 && !fc.Pure {
		for _, e := range fc.Ensures {
			if strings.Contains(e.Text, "old(") {
				panic(engineErr("stale-contract", "%s: contract of %s relates pre- and post-state (old) but has no modifies clause; a call site would assume nothing changes", e.where(), shortKey(key)))
			}
		}
	}
	bind := fr.argBindings(c, args)
	pre := st.clone()
	env := &Env{ex: ex, fr: fr, cur: st, old: fr.entry, vars: bind, pkgPath: fc.PkgPath, callerPkg: ex.pkg}
	for i, r := range fc.Requires {
		cond := env.evalBool(r)
		props := r.Props
		ex.oblige(fmt.Sprintf("pre:%s.%s@%d", name, clauseName(r, i), fr.callOrd[site]), "pre", props, reach, cond, ex.pos(instrPos(site)), shortKey(key)+" requires "+r.Text)
	}
	var res []T
	if fc.Pure {
		res = fr.pureResults(key, sig, args, reach, st)
	} else {
		// havoc the frame
		for _, m := range fc.Modifies {
			env2 := &Env{ex: ex, fr: fr, cur: pre, old: pre, vars: bind, pkgPath: fc.PkgPath, callerPkg: ex.pkg}
			env2.havocItem(m, st, reach)
		}
		// results
		for i := 0; i < sig.Results().Len(); i++ {
			rt := sig.Results().At(i).Type()
			r := ex.freshOfType(fmt.Sprintf("f%d_%s_%d_r%d", fr.id, sanitize(name), fr.callOrd[site], i), rt, tTrue, nil)
			fr.markAllocated(r, rt, reach, st)
			res = append(res, r)
		}
	}
	var invoked T
	if fc.Invokes != nil {
		// find the closure argument
		var ci *closureInfo
		pi := 0
		for i := 0; i < sig.Params().Len(); i++ {
			if sig.Params().At(i).Name() == fc.Invokes.Param {
				pi = i
				if sig.Recv() != nil && !c.IsInvoke() {
					pi = i + 1
				}
				if pi < len(c.Args) {
					ci = fr.findClosure(c.Args[pi])
					if ci == nil {
						if mc, ok := c.Args[pi].(*ssa.MakeClosure); ok {
							ci = &closureInfo{fn: mc.Fn.(*ssa.Function), bindings: mc.Bindings, frame: fr}
						}
					}
				}
			}
		}
		if ci == nil {
			panic(engineErr("needs-subset", "%s: `invokes %s` needs a function literal as argument at %s", shortKey(key), fc.Invokes.Param, ex.pos(instrPos(site))))
		}
		invoked = ex.fresh("invoked", "Bool")
		arg := ex.freshOfType("inv_"+fc.Invokes.Arg, ci.fn.Params[0].Type(), tTrue, nil)
		aenv := &Env{ex: ex, fr: fr, cur: st, old: pre, vars: map[string]Val{fc.Invokes.Arg: {t: arg, typ: ci.fn.Params[0].Type()}}, pkgPath: fc.PkgPath, callerPkg: ex.pkg}
		for k, v := range bind {
			aenv.vars[k] = v
		}
		ex.assume(tTrue, aenv.evalBool(fc.Invokes.Clause))
		st2 := st.clone()
		g := ex.define("invoked_reach", and(reach, invoked))
		r2 := fr.inlineWith(site, ci, nil, []T{arg}, g, st2)
		merged := ex.mergeStates([]T{invoked, not(invoked)}, []*State{st2, st})
		st.m = merged.m
		for i := range res {
			if i < len(r2) {
				res[i] = ex.define("hof_r", ite(invoked, r2[i], res[i]))
			}
		}
	}
	post := &Env{ex: ex, fr: fr, cur: st, old: pre, vars: map[string]Val{}, pkgPath: fc.PkgPath, callerPkg: ex.pkg}
	for k, v := range bind {
		post.vars[k] = v
	}
	if fc.Invokes != nil {
		post.vars["invoked"] = Val{t: invoked, typ: types.Typ[types.Bool]}
	}
	for i, r := range res {
		v := Val{t: r, typ: sig.Results().At(i).Type()}
		post.vars[fmt.Sprintf("result%d", i)] = v
		if n := sig.Results().At(i).Name(); n != "" && n != "_" {
			if _, clash := post.vars[n]; !clash {
				post.vars[n] = v
			}
		}
		if len(res) == 1 {
			post.vars["result"] = v
		}
	}
	for _, e := range fc.Assumes {
		ex.assume(reach, post.evalBool(e))
		ex.assumed["assumed (unproved) postcondition of "+shortKey(key)+" ("+relPath(e.where())+"): "+e.Text] = true
	}
	for _, e := range fc.Ensures {
		if fc.Pure {
			// a pure function is total and deterministic: its postcondition holds of the application term everywhere
			ex.assume(tTrue, post.evalBool(e))
		} else {
			ex.assumeKind("post", reach, post.evalBool(e))
		}
	}
	return res
}

// markAllocated: references returned by a call are allocated afterwards (fresh or old).
func (fr *Frame) markAllocated(r T, ty types.Type, reach T, st *State) {
	ex := fr.ex
	var ref T
	switch ty.Underlying().(type) {
	case *types.Pointer, *types.Map, *types.Chan, *types.Signature:
		ref = r
	case *types.Slice:
		ref = app("Ref", "sl$arr", r)
	case *types.Interface:
		ref = app("Ref", "if$ref", r)
	default:
		return
	}
	ac := ex.allocComp()
	a := ex.get(st, ac)
	ex.set(st, ac, ite(eq(ref, tNil), a, store(a, ref, tTrue)))
}

func (fr *Frame) pureResults(key string, sig *types.Signature, args []Val, reach T, st *State) []T {
	ex := fr.ex
	if sig.Results().Len() != 1 {
		panic(engineErr("needs-spec", "pure function %s must have exactly one result", key))
	}
	rt := sig.Results().At(0).Type()
	var ts []T
	var sorts []string
	for _, a := range args {
		if a.lv != nil {
			panic(engineErr("needs-subset", "pointer into object passed to pure function %s", key))
		}
		ts = append(ts, a.t)
		sorts = append(sorts, a.t.sort)
	}
	fn := ex.pureFn(key, sorts, ex.sorts.sortOf(rt))
	var r T
	if len(ts) == 0 {
		r = T{fn, ex.sorts.sortOf(rt)}
	} else {
		r = app(ex.sorts.sortOf(rt), fn, ts...)
	}
	r = ex.define("pure", r)
	ex.assumeWellTyped(r, rt, reach, nil)
	return []T{r}
}

func (ex *Exec) pureFn(key string, argSorts []string, ret string) string {
	fn := "pure$" + sanitize(shortKey(key))
	if !ex.declared[fn] {
		ex.declared[fn] = true
		if len(argSorts) == 0 {
			ex.decls = append(ex.decls, fmt.Sprintf("(declare-const %s %s)", fn, ret))
		} else {
			ex.decls = append(ex.decls, fmt.Sprintf("(declare-fun %s (%s) %s)", fn, strings.Join(argSorts, " "), ret))
		}
	}
	return fn
}

// applyDefault: callee without a contract. Martian's own functions must have one; dependencies fall under the
// `default pure|opaque` rules of /verif/specs.
func (fr *Frame) applyDefault(site ssa.Instruction, key string, c *ssa.CallCommon, sig *types.Signature, args []Val, reach T, st *State) []T {
	ex := fr.ex
	kind := ""
	for _, d := range ex.L.contracts.Defaults {
		if d.Pat.MatchString(key) {
			kind = d.Kind
			ex.assumed["default "+d.Kind+" for "+shortKey(key)+" ("+relPath(d.Src)+")"] = true
			break
		}
	}
	switch kind {
	case "pure":
		if sig.Results().Len() == 1 {
			ok := true
			for _, a := range args {
				if a.lv != nil {
					ok = false
				}
			}
			if ok {
				return fr.pureResults(key, sig, args, reach, st)
			}
		}
		fallthrough
	case "opaque":
		var res []T
		for i := 0; i < sig.Results().Len(); i++ {
			rt := sig.Results().At(i).Type()
			r := ex.freshOfType(fmt.Sprintf("f%d_%s_%d_r%d", fr.id, sanitize(fr.callName[site]), fr.callOrd[site], i), rt, tTrue, nil)
			fr.markAllocated(r, rt, reach, st)
			res = append(res, r)
		}
		return res
	}
	if res, ok := fr.fallbackCall(site, key, c, sig, args, reach, st); ok {
		return res
	}
	panic(engineErr("needs-spec", "no contract or default for callee %s (called at %s in %s)", key, ex.pos(instrPos(site)), fr.fn))
}

// fallbackCall handles a statically known callee that has neither a contract nor a default, so that a change which
// introduces a call to a helper does not stop the check:
//   - a function of the verified module with a body is executed in place (no recursion, bounded depth);
//   - a function outside the module whose parameters cannot carry a call-back (no interface, function or channel
//     values) is treated as affecting only the memory directly reachable from its arguments (slice elements, pointer
//     targets, map entries), with arbitrary results. This is recorded as an assumption in the evidence.
func (fr *Frame) fallbackCall(site ssa.Instruction, key string, c *ssa.CallCommon, sig *types.Signature, args []Val, reach T, st *State) ([]T, bool) {
	ex := fr.ex
	f := c.StaticCallee()
	if f == nil {
		return nil, false
	}
	inModule := f.Pkg != nil && strings.HasPrefix(f.Pkg.Pkg.Path(), modulePath)
	if inModule {
		if len(f.Blocks) == 0 {
			return nil, false
		}
		depth := 0
		for p := fr; p != nil; p = p.parent {
			if p.fn == f {
				return nil, false
			}
			depth++
		}
		if depth > 4 {
			return nil, false
		}
		ex.assumed["callee without contract executed in place: "+shortKey(key)] = true
		return fr.inline(site, &closureInfo{fn: f, frame: fr}, c.Args, reach, st), true
	}
	for _, a := range args {
		switch u := a.typ.Underlying().(type) {
		case *types.Interface, *types.Signature, *types.Chan:
			return nil, false
		case *types.Pointer:
			if _, isIface := u.Elem().Underlying().(*types.Interface); isIface {
				return nil, false
			}
		}
	}
	ex.assumed["callee without contract, assumed to affect only memory directly reachable from its arguments: "+shortKey(key)] = true
	for _, a := range args {
		switch u := a.typ.Underlying().(type) {
		case *types.Slice:
			cmp := ex.elemsComp(u.Elem())
			cur := ex.get(st, cmp)
			arr := app("Ref", "sl$arr", a.t)
			ex.set(st, cmp, ite(eq(arr, tNil), cur, store(cur, arr, ex.fresh("hvrow", arraySort("Int", ex.sorts.sortOf(u.Elem()))))))
		case *types.Map:
			has, val, ln := ex.mapComps(u)
			ks, vs := ex.sorts.sortOf(u.Key()), ex.sorts.sortOf(u.Elem())
			ex.set(st, has, store(ex.get(st, has), a.t, ex.fresh("hvhas", arraySort(ks, "Bool"))))
			ex.set(st, val, store(ex.get(st, val), a.t, ex.fresh("hvval", arraySort(ks, vs))))
			l := ex.fresh("hvlen", "Int")
			ex.assume(tTrue, app("Bool", ">=", l, intLit(0)))
			ex.set(st, ln, store(ex.get(st, ln), a.t, l))
		case *types.Pointer:
			if a.lv != nil {
				ex.havocLV(st, reach, a.lv)
			} else {
				ex.havocLV(st, reach, ex.ptrLV(a.t, u.Elem()))
			}
		}
	}
	var res []T
	for i := 0; i < sig.Results().Len(); i++ {
		rt := sig.Results().At(i).Type()
		r := ex.freshOfType(fmt.Sprintf("f%d_%s_%d_r%d", fr.id, sanitize(fr.callName[site]), fr.callOrd[site], i), rt, tTrue, nil)
		res = append(res, r)
	}
	return res, true
}

func relPath(p string) string {
	p = strings.TrimPrefix(p, "/repo/")
	p = strings.TrimPrefix(p, "/verif/")
	return p
}

// inline executes a closure body in place.
func (fr *Frame) inline(site ssa.Instruction, ci *closureInfo, argVals []ssa.Value, reach T, st *State) []T {
	return fr.inlineWith(site, ci, argVals, nil, reach, st)
}

// inlineWith: argTerms (when non-nil) are used for the parameters instead of SSA values.
func (fr *Frame) inlineWith(site ssa.Instruction, ci *closureInfo, argVals []ssa.Value, argTerms []T, reach T, st *State) []T {
	ex := fr.ex
	sub := ex.newFrame(ci.fn, fr)
	sub.entry = fr.entry
	for i, p := range ci.fn.Params {
		if argTerms != nil {
			if i < len(argTerms) {
				sub.vals[p] = argTerms[i]
			}
			continue
		}
		if i < len(argVals) {
			if lv, ok := fr.lvals[argVals[i]]; ok && lv.kind == "comp" {
				sub.lvals[p] = lv
			} else {
				sub.vals[p] = fr.val(argVals[i])
			}
		}
	}
	owner := ci.frame
	for i, fv := range ci.fn.FreeVars {
		b := ci.bindings[i]
		if lv, ok := owner.lvals[b]; ok && lv.kind == "comp" {
			sub.lvals[fv] = lv
		} else {
			sub.vals[fv] = owner.val(b)
		}
	}
	// spec-visible names inside an inlined closure: the enclosing function's
	sub.params = fr.params
	sub.runRegion(nil, ci.fn.Blocks[0], reach, st.clone(), false)
	if len(sub.rets) == 0 {
		// closure never returns (e.g. infinite loop or panic): the continuation is unreachable
		ex.assume(reach, tFalse)
		var res []T
		for i := 0; i < ci.fn.Signature.Results().Len(); i++ {
			res = append(res, ex.sorts.zero(ci.fn.Signature.Results().At(i).Type()))
		}
		return res
	}
	var conds []T
	var sts []*State
	for _, r := range sub.rets {
		conds = append(conds, r.reach)
		sts = append(sts, r.st)
	}
	merged := ex.mergeStates(conds, sts)
	// paths inside the closure that do not return (panic) end the outer path too
	ex.assume(reach, or(conds...))
	st.m = merged.m
	n := ci.fn.Signature.Results().Len()
	res := make([]T, n)
	for i := 0; i < n; i++ {
		t := sub.rets[len(sub.rets)-1].results[i]
		for k := len(sub.rets) - 2; k >= 0; k-- {
			t = ite(sub.rets[k].reach, sub.rets[k].results[i], t)
		}
		res[i] = ex.define(fmt.Sprintf("f%d_inl_r%d", fr.id, i), t)
	}
	return res
}

func (fr *Frame) builtin(site ssa.Instruction, b *ssa.Builtin, c *ssa.CallCommon, reach T, st *State) []T {
	ex := fr.ex
	arg := func(i int) T { return fr.val(c.Args[i]) }
	switch b.Name() {
	case "len":
		a := arg(0)
		switch u := c.Args[0].Type().Underlying().(type) {
		case *types.Slice:
			return []T{app("Int", "sl$len", a)}
		case *types.Basic:
			return []T{app("Int", "len$Str", a)}
		case *types.Map:
			_, _, ln := ex.mapComps(u)
			v := ex.define("maplen", ite(eq(a, tNil), intLit(0), sel(ex.get(st, ln), a)))
			ex.assume(tTrue, app("Bool", ">=", v, intLit(0)))
			return []T{v}
		case *types.Array:
			return []T{intLit(u.Len())}
		case *types.Pointer:
			return []T{intLit(u.Elem().Underlying().(*types.Array).Len())}
		case *types.Chan:
			v := ex.fresh("chanlen", "Int")
			ex.assume(tTrue, app("Bool", ">=", v, intLit(0)))
			return []T{v}
		}
	case "cap":
		a := arg(0)
		switch u := c.Args[0].Type().Underlying().(type) {
		case *types.Slice:
			return []T{app("Int", "sl$cap", a)}
		case *types.Array:
			return []T{intLit(u.Len())}
		case *types.Chan:
			v := ex.fresh("chancap", "Int")
			ex.assume(tTrue, app("Bool", ">=", v, intLit(0)))
			return []T{v}
		}
	case "append":
		return []T{fr.appendBuiltin(site, c, reach, st)}
	case "copy":
		return []T{fr.copyBuiltin(site, c, reach, st)}
	case "delete":
		u := c.Args[0].Type().Underlying().(*types.Map)
		m, k := arg(0), arg(1)
		has, _, ln := ex.mapComps(u)
		hc, lc := ex.get(st, has), ex.get(st, ln)
		was := and(not(eq(m, tNil)), sel(sel(hc, m), k))
		ex.set(st, ln, ite(was, store(lc, m, app("Int", "-", sel(lc, m), intLit(1))), lc))
		ex.set(st, has, ite(eq(m, tNil), hc, store(hc, m, store(sel(hc, m), k, tFalse))))
		return nil
	case "close":
		return nil
	case "panic":
		fr.safety("panic", site, reach, tFalse, "explicit panic is unreachable")
		ex.assume(reach, tFalse)
		return nil
	case "print", "println":
		return nil
	case "min", "max":
		t := arg(0)
		for i := 1; i < len(c.Args); i++ {
			t = app("Int", b.Name()+"$Int", t, arg(i))
		}
		return []T{t}
	case "recover":
		return []T{T{"nil$Iface", "Iface"}}
	case "ssa:wrapnilchk":
		return []T{arg(0)}
	}
	panic(engineErr("needs-subset", "builtin %s on %s", b.Name(), c.Args[0].Type()))
}

// appendBuiltin: result has the old elements followed by the new ones; in place when capacity allows
// (nondeterministically reallocated otherwise), as in the Go specification.
func (fr *Frame) appendBuiltin(site ssa.Instruction, c *ssa.CallCommon, reach T, st *State) T {
	ex := fr.ex
	s, t := fr.val(c.Args[0]), fr.val(c.Args[1])
	var elem types.Type
	if sl, ok := c.Args[0].Type().Underlying().(*types.Slice); ok {
		elem = sl.Elem()
	} else {
		panic(engineErr("needs-subset", "append to %s", c.Args[0].Type()))
	}
	var srcRow T
	var tlen, toff T
	if _, isStr := c.Args[1].Type().Underlying().(*types.Basic); isStr { // append([]byte, string...)
		srcRow = app(arraySort("Int", "Int"), "str$tobytes", t)
		tlen, toff = app("Int", "len$Str", t), intLit(0)
	} else {
		srcRow = sel(ex.get(st, ex.elemsComp(elem)), app("Ref", "sl$arr", t))
		tlen, toff = app("Int", "sl$len", t), app("Int", "sl$off", t)
	}
	comp := ex.elemsComp(elem)
	es := ex.sorts.sortOf(elem)
	slen, scap, soff, sarr := app("Int", "sl$len", s), app("Int", "sl$cap", s), app("Int", "sl$off", s), app("Ref", "sl$arr", s)
	newLen := ex.define("applen", app("Int", "+", slen, tlen))
	fits := ex.define("appfits", and(app("Bool", "<=", newLen, scap), not(eq(sarr, tNil))))
	// new backing array (used when it does not fit)
	oldA := ex.get(st, ex.allocComp())
	fresh := ex.allocRef(st, reach, "apparr")
	newA := ex.get(st, ex.allocComp())
	ex.set(st, ex.allocComp(), ite(fits, oldA, newA))
	newCap := ex.fresh("appcap", "Int")
	ex.assume(tTrue, and(app("Bool", ">=", newCap, newLen), app("Bool", "<=", newCap, T{"4611686018427387904", "Int"})))
	// arr/off/cap of the result are named by constants constrained by equalities (not by define-fun macros): an ite
	// inside an index term would make every quantified fact about the result un-triggerable ('if' in patterns).
	nameIt := func(prefix string, t T) T {
		if isAtom(t.s) {
			return t
		}
		c := ex.fresh(prefix, t.sort)
		ex.emit(fmt.Sprintf("(assert (= %s %s))", c.s, t.s))
		return c
	}
	arr := nameIt("apparr_r", ite(fits, sarr, fresh))
	off := nameIt("appoff_r", ite(fits, soff, intLit(0)))
	capv := nameIt("appcap_r", ite(fits, scap, newCap))
	elems := ex.get(st, comp)
	oldRow := sel(elems, sarr)
	// the row after the append
	var row T
	if n, ok := staticLen(c.Args[1]); ok && n <= 4 {
		base := ite(fits, oldRow, ex.shiftedCopy(oldRow, soff, slen, es))
		row = base
		for j := 0; j < n; j++ {
			row = store(row, app("Int", "+", app("Int", "+", off, slen), intLit(int64(j))), sel(srcRow, app("Int", "+", toff, intLit(int64(j)))))
		}
	} else {
		r := ex.fresh("approw", arraySort("Int", es))
		// forall k: r[k] = (off+slen <= k < off+newLen) ? src[toff + k - off - slen] : (fits ? old[k] : (0<=k<slen ? old[soff+k] : default))
		k := T{"k", "Int"}
		inNew := and(app("Bool", "<=", app("Int", "+", off, slen), k), app("Bool", "<", k, app("Int", "+", off, newLen)))
		// index written as toff + (k - (off+slen)) so that quantifiers over "s[i]" (= row[off_s + i]) match syntactically
		srcv := sel(srcRow, app("Int", "+", toff, app("Int", "-", k, app("Int", "+", off, slen))))
		oldv := ite(fits, sel(oldRow, k), sel(oldRow, app("Int", "+", soff, k)))
		guard := or(fits, and(app("Bool", "<=", intLit(0), k), app("Bool", "<", k, newLen)))
		ex.emit(fmt.Sprintf("(assert (forall ((k Int)) (! (=> %s (= (select %s k) %s)) :pattern ((select %s k)))))", guard.s, r.s, ite(inNew, srcv, oldv).s, r.s))
		row = r
	}
	ex.set(st, comp, store(elems, arr, row))
	return app("Slice", "mk$Slice", arr, off, newLen, capv)
}

// shiftedCopy: a fresh row whose first n elements are old[off .. off+n).
func (ex *Exec) shiftedCopy(old, off, n T, es string) T {
	if off.s == "0" {
		return old
	}
	r := ex.fresh("cprow", arraySort("Int", es))
	ex.emit(fmt.Sprintf("(assert (forall ((k Int)) (! (=> (and (<= 0 k) (< k %s)) (= (select %s k) (select %s (+ %s k)))) :pattern ((select %s k)))))", n.s, r.s, old.s, off.s, r.s))
	return r
}

// staticLen: the length of a slice value built as `new [n]T; slice` (variadic argument packs).
func staticLen(v ssa.Value) (int, bool) {
	if sl, ok := v.(*ssa.Slice); ok && sl.Low == nil && sl.High == nil {
		if a, ok := sl.X.(*ssa.Alloc); ok {
			if arr, ok := a.Type().Underlying().(*types.Pointer).Elem().Underlying().(*types.Array); ok {
				return int(arr.Len()), true
			}
		}
	}
	if c, ok := v.(*ssa.Const); ok && c.Value == nil {
		return 0, true
	}
	return 0, false
}

func (fr *Frame) copyBuiltin(site ssa.Instruction, c *ssa.CallCommon, reach T, st *State) T {
	ex := fr.ex
	d, s := fr.val(c.Args[0]), fr.val(c.Args[1])
	elem := c.Args[0].Type().Underlying().(*types.Slice).Elem()
	comp := ex.elemsComp(elem)
	es := ex.sorts.sortOf(elem)
	var srcRow, slen, soff T
	if _, isStr := c.Args[1].Type().Underlying().(*types.Basic); isStr {
		srcRow, slen, soff = app(arraySort("Int", "Int"), "str$tobytes", s), app("Int", "len$Str", s), intLit(0)
	} else {
		srcRow, slen, soff = sel(ex.get(st, comp), app("Ref", "sl$arr", s)), app("Int", "sl$len", s), app("Int", "sl$off", s)
	}
	n := ex.define("copyn", app("Int", "min$Int", app("Int", "sl$len", d), slen))
	darr, doff := app("Ref", "sl$arr", d), app("Int", "sl$off", d)
	elems := ex.get(st, comp)
	oldRow := sel(elems, darr)
	r := ex.fresh("copyrow", arraySort("Int", es))
	ex.emit(fmt.Sprintf("(assert (forall ((k Int)) (! (= (select %s k) (ite (and (<= %s k) (< k (+ %s %s))) (select %s (+ %s (- k %s))) (select %s k))) :pattern ((select %s k)))))",
		r.s, doff.s, doff.s, n.s, srcRow.s, soff.s, doff.s, oldRow.s, r.s))
	ex.set(st, comp, ite(eq(darr, tNil), elems, store(elems, darr, r)))
	return n
}

// havocClosureEffects: the closure's body is executed once in dry mode on arbitrary arguments to find the state
// components it can assign; those components become arbitrary (sound over-approximation of zero or more invocations).
func (fr *Frame) havocClosureEffects(site ssa.Instruction, mc *ssa.MakeClosure, reach T, st *State) {
	ex := fr.ex
	fn := mc.Fn.(*ssa.Function)
	if len(fn.Blocks) == 0 {
		return
	}
	snapScript, snapN := len(ex.script), ex.n
	ex.dry++
	sub := ex.newFrame(fn, fr)
	sub.entry = fr.entry
	st2 := st.clone()
	for _, p := range fn.Params {
		sub.vals[p] = ex.freshOfType("cl_"+p.Name(), p.Type(), reach, st2)
	}
	for i, fv := range fn.FreeVars {
		b := mc.Bindings[i]
		if lv, ok := fr.lvals[b]; ok && lv.kind == "comp" {
			sub.lvals[fv] = lv
		} else {
			sub.vals[fv] = fr.val(b)
		}
	}
	sub.params = fr.params
	sub.runRegion(nil, fn.Blocks[0], reach, st2, false)
	ex.dry--
	ex.script = ex.script[:snapScript]
	modified := map[string]bool{}
	for _, r := range sub.rets {
		for k := range r.st.m {
			if ex.get(r.st, k).s != ex.get(st, k).s {
				modified[k] = true
			}
		}
	}
	for _, k := range sortedKeys(modified) {
		if strings.HasPrefix(k, "Armed$") || strings.HasPrefix(k, "Visited$") {
			continue
		}
		if k == "Alloc" {
			continue // allocation only grows; objects known so far stay allocated
		}
		// components written only at indices that do not depend on the closure's arguments are havoced there only
		if strings.HasPrefix(ex.comps[k], "(Array Ref") {
			base := ex.get(st, k)
			ok := true
			var idxs []string
			for _, r := range sub.rets {
				ix, fresh, ok2 := ex.writtenIndices(ex.get(r.st, k).s, base.s, snapN)
				if !ok2 || fresh {
					ok = false
					break
				}
				idxs = append(idxs, ix...)
			}
			if ok {
				t := base
				seen := map[string]bool{}
				for _, ix := range idxs {
					if !seen[ix] {
						seen[ix] = true
						t = store(t, T{ix, "Ref"}, ex.fresh("hv_"+k, elemSort(ex.comps[k])))
					}
				}
				st.m[k] = ex.define(k, t)
				continue
			}
		}
		st.m[k] = ex.fresh(k, ex.comps[k])
	}
	ex.abstractions["closure passed to "+fr.callName[site]+" at "+ex.pos(instrPos(site))+": every component it assigns is havoced (it may run any number of times)"] = true
}

// lockReacquire: `guarded_by T.f mu ... reacquire`. The contract of a function is read at its first acquisition of the
// lock (its linearisation point). Once the function has released x.mu, other goroutines may run: when it acquires
// x.mu AGAIN, the guarded field x.f (for a map or slice: its contents as well) holds arbitrary values. A function that
// splits a check and the update it justifies over two critical sections therefore cannot prove its postcondition.
func (fr *Frame) lockReacquire(key string, c *ssa.CallCommon, reach T, st *State) {
	ex := fr.ex
	isLock := strings.HasSuffix(key, "sync.Mutex).Lock") || strings.HasSuffix(key, "sync.RWMutex).Lock") || strings.HasSuffix(key, "sync.RWMutex).RLock")
	isUnlock := strings.HasSuffix(key, "sync.Mutex).Unlock") || strings.HasSuffix(key, "sync.RWMutex).Unlock") || strings.HasSuffix(key, "sync.RWMutex).RUnlock")
	if (!isLock && !isUnlock) || len(c.Args) == 0 || len(ex.L.contracts.Guarded) == 0 {
		return
	}
	fa, ok := c.Args[0].(*ssa.FieldAddr)
	if !ok {
		return
	}
	pt, ok := fa.X.Type().Underlying().(*types.Pointer)
	if !ok {
		return
	}
	nt, ok := types.Unalias(pt.Elem()).(*types.Named)
	if !ok || nt.Obj().Pkg() == nil {
		return
	}
	stt, ok := nt.Underlying().(*types.Struct)
	if !ok {
		return
	}
	muName := stt.Field(fa.Field).Name()
	prefix := nt.Obj().Pkg().Path() + "." + nt.Obj().Name() + "."
	var fields []int
	for i := 0; i < stt.NumFields(); i++ {
		if g, ok := ex.L.contracts.Guarded[prefix+stt.Field(i).Name()]; ok && g.Mutex == muName && contains(g.Props, "reacquire") {
			fields = append(fields, i)
		}
	}
	if len(fields) == 0 {
		return
	}
	if _, isLV := fr.lvals[fa.X]; isLV {
		return
	}
	owner := fr.val(fa.X)
	mref := ex.subRef(owner, nt, fa.Field)
	comp := ex.comp("Released$mutex", arraySort("Ref", "Bool"))
	if isUnlock {
		ex.set(st, comp, store(ex.get(st, comp), mref, tTrue))
		return
	}
	cond := ex.define("reacq", and(reach, sel(ex.get(st, comp), mref)))
	ex.abstractions["re-acquisition of "+nt.Obj().Name()+"."+muName+" after a release: guarded fields are arbitrary (other goroutines may have run)"] = true
	base := &LV{kind: "struct", ref: owner, typ: nt}
	for _, i := range fields {
		lv := ex.fieldLV(base, i)
		ft := stt.Field(i).Type()
		cur := ex.load(st, lv)
		switch u := ft.Underlying().(type) {
		case *types.Map:
			has, val, ln := ex.mapComps(u)
			ks, vs := ex.sorts.sortOf(u.Key()), ex.sorts.sortOf(u.Elem())
			hc, vc, lc := ex.get(st, has), ex.get(st, val), ex.get(st, ln)
			ex.set(st, has, store(hc, cur, ite(cond, ex.fresh("rqhas", arraySort(ks, "Bool")), sel(hc, cur))))
			ex.set(st, val, store(vc, cur, ite(cond, ex.fresh("rqval", arraySort(ks, vs)), sel(vc, cur))))
			l := ex.fresh("rqlen", "Int")
			ex.assume(tTrue, app("Bool", ">=", l, intLit(0)))
			ex.set(st, ln, store(lc, cur, ite(cond, l, sel(lc, cur))))
		default:
			if lv.kind == "comp" {
				nv := ex.freshOfType("rq", ft, reach, nil)
				ex.storeLV(st, lv, ite(cond, nv, cur))
			}
		}
	}
}


// libraryFuncValue: v is (a component of) the result of a call to a function outside the verified module.
func (fr *Frame) libraryFuncValue(v ssa.Value) bool {
	if e, ok := v.(*ssa.Extract); ok {
		v = e.Tuple
	}
	call, ok := v.(*ssa.Call)
	if !ok {
		return false
	}
	f := call.Call.StaticCallee()
	return f != nil && f.Pkg != nil && !strings.HasPrefix(f.Pkg.Pkg.Path(), modulePath)
}
