package main

// Evaluation of specification expressions to SMT terms in a given (current, old) state pair.

import (
	"reflect"
	"fmt"
	"go/ast"
	"go/constant"
	"go/parser"
	"go/types"
	"math/big"
	"strconv"
	"strings"

	"golang.org/x/tools/go/ssa"
)

// Val: a typed spec value. typ == nil for ghost-only sorts (sets); lv != nil when the value is a pointer that
// is only known as a location (address of a field passed as an argument).
type Val struct {
	t     T
	typ   types.Type
	lv    *LV
	isPkg *types.Package
	isTyp bool
}

type Env struct {
	ex        *Exec
	fr        *Frame
	cur, old  *State
	localSt   *State // state from which cell-resident locals are read inside old(..)
	vars      map[string]Val
	pkgPath   string         // package whose contract file the clause comes from ("" = global spec)
	callerPkg *types.Package // fallback for name resolution
	atBlock   *ssa.BasicBlock
	atInstr   ssa.Instruction
	phiOver   map[*ssa.Phi]T
	clause    *Clause
}

func (env *Env) fail(f string, a ...interface{}) {
	where := ""
	if env.clause != nil {
		where = env.clause.where() + ": "
	}
	panic(engineErr("stale-contract", "%s%s", where, fmt.Sprintf(f, a...)))
}

func (env *Env) evalBool(c *Clause) T {
	env.clause = c
	if c.Expr == nil {
		e, err := parseSpecExpr(c.Text)
		if err != nil {
			env.fail("%v", err)
		}
		c.Expr = e
	}
	v := env.eval(c.Expr)
	if v.t.sort != "Bool" {
		env.fail("clause is not boolean: %s", c.Text)
	}
	return v.t
}

func (env *Env) pkg() *types.Package {
	if env.pkgPath != "" {
		if p := env.ex.L.typesPkg(env.pkgPath); p != nil {
			return p
		}
	}
	return env.callerPkg
}

var untypedInt = types.Typ[types.UntypedInt]

func (env *Env) with(name string, v Val) *Env {
	n := *env
	n.vars = make(map[string]Val, len(env.vars)+1)
	for k, x := range env.vars {
		n.vars[k] = x
	}
	n.vars[name] = v
	return &n
}

func (env *Env) inOld() *Env {
	n := *env
	n.cur = env.old
	// locals have no old value: inside old(..) a local denotes its current value (cell-resident locals are read from
	// the current state), only the heap is the entry heap
	if n.localSt == nil {
		n.localSt = env.cur
	}
	return &n
}

func isIntType(t types.Type) bool {
	if t == nil {
		return false
	}
	b, ok := t.Underlying().(*types.Basic)
	return ok && b.Info()&types.IsInteger != 0
}

func (env *Env) eval(e *SExpr) Val {
	ex := env.ex
	switch e.Kind {
	case "paren":
		return env.eval(e.X)
	case "int":
		s := strings.ReplaceAll(e.Name, "_", "")
		bi, ok := new(big.Int).SetString(s, 0)
		if !ok {
			env.fail("bad integer literal %s", e.Name)
		}
		return Val{t: bigLit(bi), typ: untypedInt}
	case "str":
		s, err := strconv.Unquote(e.Name)
		if err != nil {
			env.fail("bad string literal %s", e.Name)
		}
		return Val{t: ex.strLit(s), typ: types.Typ[types.String]}
	case "ident":
		return env.ident(e.Name)
	case "unary":
		switch e.Op {
		case "!":
			return Val{t: not(env.eval(e.X).t), typ: types.Typ[types.Bool]}
		case "-":
			x := env.eval(e.X)
			return Val{t: app(x.t.sort, "-", x.t), typ: x.typ}
		case "*":
			x := env.eval(e.X)
			if x.lv != nil {
				return Val{t: ex.load(env.cur, x.lv), typ: x.lv.typ}
			}
			pt, ok := x.typ.Underlying().(*types.Pointer)
			if !ok {
				env.fail("dereference of non-pointer")
			}
			return Val{t: ex.load(env.cur, env.ptrLoc(x.t, pt.Elem())), typ: pt.Elem()}
		}
	case "binary":
		return env.binary(e)
	case "sel":
		return env.selector(e)
	case "call":
		return env.callExpr(e)
	case "index":
		x := env.eval(e.X)
		i := env.eval(e.Y)
		if x.typ == nil {
			// ghost map / set
			if strings.HasPrefix(x.t.sort, "(Array") {
				return Val{t: sel(x.t, i.t), typ: ghostElemType(x.t.sort)}
			}
			env.fail("index of non-indexable ghost value")
		}
		switch u := x.typ.Underlying().(type) {
		case *types.Slice:
			row := sel(ex.get(env.cur, ex.elemsComp(u.Elem())), app("Ref", "sl$arr", x.t))
			return Val{t: sel(row, app("Int", "+", app("Int", "sl$off", x.t), i.t)), typ: u.Elem()}
		case *types.Map:
			_, val, _ := ex.mapComps(u)
			return Val{t: sel(sel(ex.get(env.cur, val), x.t), i.t), typ: u.Elem()}
		case *types.Array:
			return Val{t: sel(x.t, i.t), typ: u.Elem()}
		case *types.Pointer:
			if a, ok := u.Elem().Underlying().(*types.Array); ok {
				return Val{t: sel(sel(ex.get(env.cur, ex.elemsComp(a.Elem())), x.t), i.t), typ: a.Elem()}
			}
		case *types.Basic:
			return Val{t: app("Int", "str$at", x.t, i.t), typ: types.Typ[types.Uint8]}
		}
		env.fail("cannot index %s", x.typ)
	case "slice":
		x := env.eval(e.X)
		if _, ok := x.typ.Underlying().(*types.Slice); !ok {
			env.fail("slice expression on non-slice")
		}
		lo := intLit(0)
		if e.Y != nil {
			lo = env.eval(e.Y).t
		}
		hi := app("Int", "sl$len", x.t)
		if e.Z != nil {
			hi = env.eval(e.Z).t
		}
		return Val{t: app("Slice", "mk$Slice", app("Ref", "sl$arr", x.t), app("Int", "+", app("Int", "sl$off", x.t), lo), app("Int", "-", hi, lo), app("Int", "-", app("Int", "sl$cap", x.t), lo)), typ: x.typ}
	case "quant":
		n := *env
		n.vars = map[string]Val{}
		for k, v := range env.vars {
			n.vars[k] = v
		}
		var binders []string
		var guards []T
		for _, v := range e.Vars {
			ty, gs := env.resolveTypeOrGhost(v.TypeTxt)
			var s string
			if ty != nil {
				s = ex.sorts.sortOf(ty)
			} else {
				s = gs
			}
			name := fmt.Sprintf("%s$q%d", v.Name, ex.qn())
			n.vars[v.Name] = Val{t: T{name, s}, typ: ty}
			binders = append(binders, fmt.Sprintf("(%s %s)", name, s))
			if ty != nil {
				if g := inRange(T{name, s}, ty); g.s != "true" && !isIntKindInt(ty) {
					guards = append(guards, g)
				}
			}
		}
		body := n.eval(e.X).t
		if e.Op == "forall" {
			body = implies(and(guards...), body)
		} else {
			body = and(append(guards, body)...)
		}
		return Val{t: T{fmt.Sprintf("(%s (%s) %s)", e.Op, strings.Join(binders, " "), body.s), "Bool"}, typ: types.Typ[types.Bool]}
	}
	env.fail("cannot evaluate %s expression", e.Kind)
	return Val{}
}

func isIntKindInt(t types.Type) bool {
	b, ok := t.Underlying().(*types.Basic)
	return ok && (b.Kind() == types.Int || b.Kind() == types.Int64)
}

func (ex *Exec) qn() int { ex.n++; return ex.n }

func ghostElemType(sort string) types.Type {
	switch elemSort(sort) {
	case "Bool":
		return types.Typ[types.Bool]
	case "Int":
		return types.Typ[types.Int]
	}
	return nil
}

// ptrLoc: location designated by pointer term (escaped addresses resolve to their field).
func (env *Env) ptrLoc(ref T, elem types.Type) *LV {
	if lv, ok := env.ex.escaped[ref.s]; ok {
		return lv
	}
	return env.ex.ptrLV(ref, elem)
}

func (env *Env) ident(name string) Val {
	ex := env.ex
	switch name {
	case "true":
		return Val{t: tTrue, typ: types.Typ[types.Bool]}
	case "false":
		return Val{t: tFalse, typ: types.Typ[types.Bool]}
	case "nil":
		return Val{t: tNil, typ: types.Typ[types.UntypedNil]}
	}
	if v, ok := env.vars[name]; ok {
		return v
	}
	// rangeindexN: the hidden index of range loop N (for invariants of a loop nested in it)
	if env.fr != nil && strings.HasPrefix(name, "rangeindex") && len(name) > len("rangeindex") {
		if n, err := strconv.Atoi(name[len("rangeindex"):]); err == nil {
			for h, ord := range env.fr.loopOrd {
				if ord != n {
					continue
				}
				for _, in := range h.Instrs {
					phi, ok := in.(*ssa.Phi)
					if !ok {
						break
					}
					if phi.Comment == "rangeindex" {
						if t, ok := env.phiOver[phi]; ok && h == env.atBlock {
							return Val{t: t, typ: phi.Type()}
						}
						if t, ok := env.fr.vals[phi]; ok {
							return Val{t: t, typ: phi.Type()}
						}
					}
				}
			}
			env.fail("no range loop %d in scope for %s", n, name)
		}
	}
	if env.fr != nil && env.localSt != nil {
		// inside old(..): a parameter denotes its value at entry, even when the body reassigns it
		if v, ok := env.fr.params[name]; ok {
			return v
		}
	}
	if env.fr != nil && env.atBlock != nil {
		lst := env.cur
		if env.localSt != nil {
			lst = env.localSt
		}
		if v, ok := env.fr.lookupLocal(name, env.atBlock, env.atInstr, env.phiOver, lst); ok {
			return v
		}
	}
	if env.fr != nil {
		if v, ok := env.fr.params[name]; ok {
			return v
		}
		// a variable of the enclosing function captured by this closure (requires / ensures of a closure under contract)
		if env.atBlock == nil && env.fr.parent == nil {
			for _, fv := range env.fr.fn.FreeVars {
				if fv.Name() == name {
					if _, ok := env.fr.vals[fv]; ok {
						lv := env.fr.lvOf(fv)
						return Val{t: ex.load(env.cur, lv), typ: lv.typ}
					}
				}
			}
		}
	}
	if g, ok := ex.L.contracts.GhostVars[name]; ok {
		return env.ghostVar(g)
	}
	// package scope
	for _, p := range []*types.Package{env.pkg(), env.callerPkg} {
		if p == nil {
			continue
		}
		if o := p.Scope().Lookup(name); o != nil {
			return env.object(o)
		}
	}
	if p := env.findImport(name); p != nil {
		return Val{isPkg: p}
	}
	if o := types.Universe.Lookup(name); o != nil {
		if tn, ok := o.(*types.TypeName); ok {
			return Val{isTyp: true, typ: tn.Type()}
		}
	}
	env.fail("unknown identifier %q", name)
	return Val{}
}

func (env *Env) findImport(name string) *types.Package {
	for _, p := range []*types.Package{env.pkg(), env.callerPkg} {
		if p == nil {
			continue
		}
		for _, imp := range p.Imports() {
			if imp.Name() == name {
				return imp
			}
		}
	}
	return env.ex.L.pkgByName(name)
}

func (env *Env) object(o types.Object) Val {
	ex := env.ex
	switch x := o.(type) {
	case *types.Const:
		return Val{t: ex.constTerm(x.Val(), x.Type()), typ: x.Type()}
	case *types.TypeName:
		return Val{isTyp: true, typ: x.Type()}
	case *types.Var:
		// package-level variable
		if g := ex.L.ssaGlobal(x); g != nil {
			if v, ok := ex.immutableGlobalValue(g); ok {
				return Val{t: v, typ: x.Type()}
			}
			glv := ex.ptrLV(ex.globalRef(g), x.Type())
			if glv.kind == "struct" {
				return Val{t: ex.load(env.cur, glv), typ: x.Type(), lv: glv}
			}
			return Val{t: ex.load(env.cur, glv), typ: x.Type()}
		}
		// variable of a dependency (export data only): immutable by assumption
		name := "gv$" + sanitize(x.Pkg().Name()+"."+x.Name())
		s := ex.sorts.sortOf(x.Type())
		if !ex.declared[name] {
			ex.declared[name] = true
			ex.decls = append(ex.decls, fmt.Sprintf("(declare-const %s %s)", name, s))
			if s == "Iface" {
				ex.decls = append(ex.decls, fmt.Sprintf("(assert (and (> (if$typ %s) 0) (not (= (if$ref %s) nil))))", name, name))
				ex.errGlobals = append(ex.errGlobals, name)
			}
		}
		return Val{t: T{name, s}, typ: x.Type()}
	case *types.Func:
		return Val{t: T{"fn$" + sanitize(funcObjKey(x)), "Ref"}, typ: x.Type()}
	}
	env.fail("cannot use object %s in a spec", o)
	return Val{}
}

func (env *Env) ghostVar(g *GhostDecl) Val {
	ex := env.ex
	n := *env
	n.pkgPath = g.PkgPath
	ty, gs := n.resolveTypeOrGhost(g.TypeTxt)
	s := gs
	if ty != nil {
		s = ex.sorts.sortOf(ty)
	}
	comp := ex.comp("G$"+g.Name, s)
	return Val{t: ex.get(env.cur, comp), typ: ty}
}

func (env *Env) ghostFieldComp(g *GhostDecl) (string, types.Type) {
	ex := env.ex
	n := *env
	n.pkgPath = g.PkgPath
	ty, gs := n.resolveTypeOrGhost(g.TypeTxt)
	s := gs
	if ty != nil {
		s = ex.sorts.sortOf(ty)
	}
	return ex.comp("GF$"+g.Name, arraySort("Ref", s)), ty
}

// resolveTypeOrGhost: Go type text, or ghost sorts set[T] / map[K]V written as ghost.
func (env *Env) resolveTypeOrGhost(txt string) (types.Type, string) {
	txt = strings.TrimSpace(txt)
	if strings.HasPrefix(txt, "set[") && strings.HasSuffix(txt, "]") {
		et, es := env.resolveTypeOrGhost(txt[4 : len(txt)-1])
		if et != nil {
			es = env.ex.sorts.sortOf(et)
		}
		return nil, arraySort(es, "Bool")
	}
	if strings.HasPrefix(txt, "gmap[") {
		cl := matchBracket(txt, 4)
		kt, ks := env.resolveTypeOrGhost(txt[5:cl])
		if kt != nil {
			ks = env.ex.sorts.sortOf(kt)
		}
		vt, vs := env.resolveTypeOrGhost(txt[cl+1:])
		if vt != nil {
			vs = env.ex.sorts.sortOf(vt)
		}
		return nil, arraySort(ks, vs)
	}
	return env.resolveType(txt), ""
}

func matchBracket(s string, open int) int {
	d := 0
	for i := open; i < len(s); i++ {
		if s[i] == '[' {
			d++
		} else if s[i] == ']' {
			d--
			if d == 0 {
				return i
			}
		}
	}
	return -1
}

func (env *Env) resolveType(txt string) types.Type {
	e, err := parser.ParseExpr(txt)
	if err != nil {
		env.fail("bad type %q: %v", txt, err)
	}
	return env.typeOfAst(e)
}

func (env *Env) typeOfAst(e ast.Expr) types.Type {
	switch x := e.(type) {
	case *ast.Ident:
		for _, p := range []*types.Package{env.pkg(), env.callerPkg} {
			if p == nil {
				continue
			}
			if o, ok := p.Scope().Lookup(x.Name).(*types.TypeName); ok {
				return o.Type()
			}
		}
		if o, ok := types.Universe.Lookup(x.Name).(*types.TypeName); ok {
			return o.Type()
		}
	case *ast.SelectorExpr:
		if id, ok := x.X.(*ast.Ident); ok {
			if p := env.findImport(id.Name); p != nil {
				if o, ok := p.Scope().Lookup(x.Sel.Name).(*types.TypeName); ok {
					return o.Type()
				}
			}
		}
	case *ast.StarExpr:
		return types.NewPointer(env.typeOfAst(x.X))
	case *ast.ArrayType:
		if x.Len == nil {
			return types.NewSlice(env.typeOfAst(x.Elt))
		}
		if bl, ok := x.Len.(*ast.BasicLit); ok {
			n, _ := strconv.Atoi(bl.Value)
			return types.NewArray(env.typeOfAst(x.Elt), int64(n))
		}
	case *ast.MapType:
		return types.NewMap(env.typeOfAst(x.Key), env.typeOfAst(x.Value))
	case *ast.InterfaceType:
		return types.NewInterfaceType(nil, nil)
	case *ast.ParenExpr:
		return env.typeOfAst(x.X)
	case *ast.ChanType:
		return types.NewChan(types.SendRecv, env.typeOfAst(x.Value))
	}
	env.fail("cannot resolve type %s", types.ExprString(e))
	return nil
}

func (env *Env) coerce(a, b Val) (Val, Val) {
	isNil := func(v Val) bool {
		bt, ok := v.typ.(*types.Basic)
		return ok && bt.Kind() == types.UntypedNil
	}
	conv := func(n Val, other Val) Val {
		switch other.t.sort {
		case "Slice":
			return Val{t: T{"nil$Slice", "Slice"}, typ: other.typ}
		case "Iface":
			return Val{t: T{"nil$Iface", "Iface"}, typ: other.typ}
		}
		return Val{t: tNil, typ: other.typ}
	}
	if a.typ != nil && isNil(a) && !(b.typ != nil && isNil(b)) {
		a = conv(a, b)
	} else if b.typ != nil && isNil(b) && !(a.typ != nil && isNil(a)) {
		b = conv(b, a)
	}
	// concrete value compared with an interface value: box it
	if a.t.sort == "Iface" && b.t.sort != "Iface" && b.typ != nil {
		b = Val{t: env.ex.mkIface(b.t, b.typ), typ: a.typ}
	} else if b.t.sort == "Iface" && a.t.sort != "Iface" && a.typ != nil {
		a = Val{t: env.ex.mkIface(a.t, a.typ), typ: b.typ}
	}
	return a, b
}

func (env *Env) binary(e *SExpr) Val {
	boolT := types.Typ[types.Bool]
	switch e.Op {
	case "&&":
		return Val{t: and(env.eval(e.X).t, env.eval(e.Y).t), typ: boolT}
	case "||":
		return Val{t: or(env.eval(e.X).t, env.eval(e.Y).t), typ: boolT}
	case "==>":
		return Val{t: implies(env.eval(e.X).t, env.eval(e.Y).t), typ: boolT}
	case "<==>":
		return Val{t: eq(env.eval(e.X).t, env.eval(e.Y).t), typ: boolT}
	}
	a, b := env.eval(e.X), env.eval(e.Y)
	switch e.Op {
	case "==", "!=":
		a, b = env.coerce(a, b)
		if a.t.sort != b.t.sort {
			env.fail("comparison of different sorts %s and %s", a.t.sort, b.t.sort)
		}
		r := eq(a.t, b.t)
		if e.Op == "!=" {
			r = not(r)
		}
		return Val{t: r, typ: boolT}
	case "<", "<=", ">", ">=":
		if a.t.sort == "Str" {
			env.fail("string ordering not supported in specs")
		}
		return Val{t: app("Bool", e.Op, a.t, b.t), typ: boolT}
	case "in":
		if b.typ != nil {
			if m, ok := b.typ.Underlying().(*types.Map); ok {
				has, _, _ := env.ex.mapComps(m)
				return Val{t: and(not(eq(b.t, tNil)), sel(sel(env.ex.get(env.cur, has), b.t), a.t)), typ: boolT}
			}
		}
		if strings.HasPrefix(b.t.sort, "(Array") {
			return Val{t: sel(b.t, a.t), typ: boolT}
		}
		env.fail("'in' needs a map or ghost set")
	case "+", "-", "*":
		if a.t.sort == "Str" && e.Op == "+" {
			return Val{t: app("Str", "str$concat", a.t, b.t), typ: a.typ}
		}
		ty := a.typ
		if ty == untypedInt {
			ty = b.typ
		}
		return Val{t: app(a.t.sort, e.Op, a.t, b.t), typ: ty}
	case "/":
		return Val{t: app("Int", "go$div", a.t, b.t), typ: a.typ}
	case "%":
		return Val{t: app("Int", "go$rem", a.t, b.t), typ: a.typ}
	}
	env.fail("operator %s not supported in specs", e.Op)
	return Val{}
}

func derefType(t types.Type) (types.Type, bool) {
	if p, ok := t.Underlying().(*types.Pointer); ok {
		return p.Elem(), true
	}
	return t, false
}

func (env *Env) selector(e *SExpr) Val {
	ex := env.ex
	x := env.eval(e.X)
	if x.isPkg != nil {
		o := x.isPkg.Scope().Lookup(e.Name)
		if o == nil {
			env.fail("%s.%s not found", x.isPkg.Name(), e.Name)
		}
		return env.object(o)
	}
	if x.typ == nil {
		env.fail("selector on ghost value")
	}
	// real field?
	obj, index, _ := types.LookupFieldOrMethod(x.typ, true, nil, e.Name)
	if obj == nil {
		base, _ := derefType(x.typ)
		if n, ok := base.(*types.Named); ok && n.Obj().Pkg() != nil {
			obj, index, _ = types.LookupFieldOrMethod(x.typ, true, n.Obj().Pkg(), e.Name)
		}
	}
	if f, ok := obj.(*types.Var); ok && f.IsField() {
		cur := x
		for _, i := range index {
			cur = env.fieldOf(cur, i)
		}
		return cur
	}
	// ghost field
	if g, ok := ex.L.contracts.GhostFields[e.Name]; ok {
		// a ghost field of an embedded struct (e.g. the ghost lock state of an embedded sync.RWMutex)
		if base, _ := derefType(x.typ); base != nil {
			if st, ok := base.Underlying().(*types.Struct); ok && typeName(base) != g.Owner {
				for i := 0; i < st.NumFields(); i++ {
					f := st.Field(i)
					if f.Embedded() && (typeName(f.Type()) == g.Owner || strings.HasSuffix(typeName(f.Type()), "."+g.Owner)) {
						x = env.fieldOf(x, i)
						break
					}
				}
			}
		}
		comp, ty := env.ghostFieldComp(g)
		ref := x.t
		if x.lv != nil && x.lv.kind == "struct" {
			ref = x.lv.ref
		} else if x.t.sort == "Iface" {
			ref = app("Ref", "if$ref", x.t)
		}
		if ref.sort != "Ref" {
			env.fail("ghost field %s on non-reference", e.Name)
		}
		return Val{t: sel(ex.get(env.cur, comp), ref), typ: ty}
	}
	env.fail("no field %s on %s", e.Name, x.typ)
	return Val{}
}

// fieldOf: field i of struct (pointer or value).
func (env *Env) fieldOf(x Val, i int) Val {
	ex := env.ex
	base, isPtr := derefType(x.typ)
	st := base.Underlying().(*types.Struct)
	f := st.Field(i)
	if !isPtr && x.lv != nil && x.lv.kind == "struct" {
		lv := ex.fieldLV(x.lv, i)
		if lv.kind == "struct" {
			return Val{t: ex.load(env.cur, lv), typ: f.Type(), lv: lv}
		}
		if lv.kind != "comp" {
			return Val{t: lv.ref, typ: types.NewPointer(f.Type())}
		}
		v := ex.load(env.cur, lv)
		if isIntType(f.Type()) && !strings.Contains(v.s, "$q") && !ex.rangeInst[v.s] {
			ex.rangeInst[v.s] = ex.dry == 0
			ex.assume(tTrue, inRange(v, f.Type()))
		}
		return Val{t: v, typ: f.Type()}
	}
	if isPtr {
		var blv *LV
		if x.lv != nil {
			blv = x.lv
		} else if lv, ok := ex.escaped[x.t.s]; ok {
			blv = lv
		} else {
			blv = &LV{kind: "struct", ref: x.t, typ: base}
		}
		lv := ex.fieldLV(blv, i)
		if lv.kind == "struct" {
			// struct-typed field: the struct value, with its location kept for further selection and ghost fields
			return Val{t: ex.load(env.cur, lv), typ: f.Type(), lv: lv}
		}
		if lv.kind != "comp" {
			return Val{t: lv.ref, typ: types.NewPointer(f.Type())}
		}
		v := ex.load(env.cur, lv)
		// every integer stored in the heap is within the range of its Go type (ground instances only)
		if isIntType(f.Type()) && !strings.Contains(v.s, "$q") && !ex.rangeInst[v.s] {
			ex.rangeInst[v.s] = ex.dry == 0 // facts emitted during a dry run are discarded with it
			ex.assume(tTrue, inRange(v, f.Type()))
		}
		return Val{t: v, typ: f.Type()}
	}
	ss := ex.sorts.sortOf(base)
	return Val{t: app(ex.sorts.sortOf(f.Type()), ex.sorts.fieldAcc(ss[2:], i, f), x.t), typ: f.Type()}
}

func (env *Env) callExpr(e *SExpr) Val {
	ex := env.ex
	boolT := types.Typ[types.Bool]
	if e.X.Kind == "ident" {
		name := e.X.Name
		if _, shadow := env.vars[name]; !shadow {
			switch name {
			case "old":
				return env.inOld().eval(e.Args[0])
			case "len", "cap":
				x := env.eval(e.Args[0])
				if x.typ == nil {
					env.fail("len of ghost value")
				}
				switch u := x.typ.Underlying().(type) {
				case *types.Slice:
					return Val{t: app("Int", "sl$"+name, x.t), typ: types.Typ[types.Int]}
				case *types.Basic:
					return Val{t: app("Int", "len$Str", x.t), typ: types.Typ[types.Int]}
				case *types.Map:
					_, _, ln := ex.mapComps(u)
					return Val{t: ite(eq(x.t, tNil), intLit(0), sel(ex.get(env.cur, ln), x.t)), typ: types.Typ[types.Int]}
				case *types.Array:
					return Val{t: intLit(u.Len()), typ: types.Typ[types.Int]}
				case *types.Chan:
					if name == "cap" {
						// capacity of a channel: fixed when it is made
						return Val{t: app("Int", "chan$cap", x.t), typ: types.Typ[types.Int]}
					}
				}
				env.fail("len of %s", x.typ)
			case "jsonkey":
				// jsonkey(T.field): the key encoding/json reads the field from (struct tag, else the field name)
				if len(e.Args) != 1 || e.Args[0].Kind != "sel" {
					env.fail("jsonkey(Type.field)")
				}
				ty, ok := env.tryType(e.Args[0].X)
				if !ok {
					env.fail("jsonkey: %s is not a type", e.Args[0].X.Name)
				}
				stt, ok := ty.Underlying().(*types.Struct)
				if !ok {
					env.fail("jsonkey: not a struct type")
				}
				for i := 0; i < stt.NumFields(); i++ {
					if stt.Field(i).Name() == e.Args[0].Name {
						key := strings.Split(reflect.StructTag(stt.Tag(i)).Get("json"), ",")[0]
						if key == "" {
							key = stt.Field(i).Name()
						}
						return Val{t: ex.strLit(key), typ: types.Typ[types.String]}
					}
				}
				env.fail("jsonkey: no field %s", e.Args[0].Name)
			case "waitsOn":
				// only at a select anchor: the select has a receive case on this channel
				x := env.eval(e.Args[0])
				if env.fr == nil {
					env.fail("waitsOn outside a function")
				}
				var ds []T
				for _, c := range env.fr.selWaits {
					ds = append(ds, eq(c, x.t))
				}
				if len(ds) == 0 {
					return Val{t: tFalse, typ: types.Typ[types.Bool]}
				}
				return Val{t: or(ds...), typ: types.Typ[types.Bool]}
			case "typeis":
				x := env.eval(e.Args[0])
				ty := env.resolveType(e.Args[1].typeText())
				if _, isI := ty.Underlying().(*types.Interface); isI {
					return Val{t: app("Bool", ex.implFn(ty), app("Int", "if$typ", x.t)), typ: boolT}
				}
				return Val{t: eq(app("Int", "if$typ", x.t), intLit(int64(ex.registerConcrete(ty)))), typ: boolT}
			case "as":
				x := env.eval(e.Args[0])
				ty := env.resolveType(e.Args[1].typeText())
				if _, isI := ty.Underlying().(*types.Interface); isI {
					return Val{t: x.t, typ: ty}
				}
				return Val{t: ex.unIface(x.t, ty), typ: ty}
			case "iface":
				x := env.eval(e.Args[0])
				return Val{t: ex.mkIface(x.t, x.typ), typ: types.NewInterfaceType(nil, nil)}
			case "ite":
				c, a, b := env.eval(e.Args[0]), env.eval(e.Args[1]), env.eval(e.Args[2])
				a, b = env.coerce(a, b)
				return Val{t: ite(c.t, a.t, b.t), typ: a.typ}
			case "has":
				m, k := env.eval(e.Args[0]), env.eval(e.Args[1])
				mt := m.typ.Underlying().(*types.Map)
				has, _, _ := ex.mapComps(mt)
				return Val{t: and(not(eq(m.t, tNil)), sel(sel(ex.get(env.cur, has), m.t), k.t)), typ: boolT}
			case "allocated":
				x := env.eval(e.Args[0])
				return Val{t: sel(ex.get(env.cur, ex.allocComp()), env.refOf(x)), typ: boolT}
			case "wasAllocated":
				// allocated when the state `old` refers to was taken (function entry for a FUC, the pre-state at a call)
				x := env.eval(e.Args[0])
				r := env.refOf(x)
				return Val{t: or(eq(r, tNil), sel(ex.get(env.old, ex.allocComp()), r)), typ: boolT}
			case "fresh":
				x := env.eval(e.Args[0])
				r := env.refOf(x)
				return Val{t: and(not(eq(r, tNil)), not(sel(ex.get(env.old, ex.allocComp()), r))), typ: boolT}
			case "arr":
				x := env.eval(e.Args[0])
				return Val{t: app("Ref", "sl$arr", x.t), typ: types.Typ[types.UnsafePointer]}
			case "off":
				x := env.eval(e.Args[0])
				return Val{t: app("Int", "sl$off", x.t), typ: types.Typ[types.Int]}
			case "ref":
				x := env.eval(e.Args[0])
				return Val{t: env.refOf(x), typ: types.Typ[types.UnsafePointer]}
			case "min", "max":
				a, b := env.eval(e.Args[0]), env.eval(e.Args[1])
				return Val{t: app("Int", name+"$Int", a.t, b.t), typ: a.typ}
			case "add":
				s, x := env.eval(e.Args[0]), env.eval(e.Args[1])
				return Val{t: store(s.t, x.t, tTrue)}
			case "upd":
				m, k, v := env.eval(e.Args[0]), env.eval(e.Args[1]), env.eval(e.Args[2])
				return Val{t: store(m.t, k.t, v.t)}
			case "remove":
				s, x := env.eval(e.Args[0]), env.eval(e.Args[1])
				return Val{t: store(s.t, x.t, tFalse)}
			case "visited":
				// visited(k): key k has been visited by the (innermost) map range in scope
				return env.visited(e)
			case "wrap32":
				x := env.eval(e.Args[0])
				return Val{t: app("Int", "mod", x.t, T{"4294967296", "Int"}), typ: types.Typ[types.Uint32]}
			}
			if p, ok := ex.L.contracts.Preds[name]; ok {
				return env.expandPred(p, e)
			}
			if sf, ok := ex.L.contracts.SpecFuncs[name]; ok {
				return env.applySpecFunc(sf, e)
			}
		}
	}
	// conversion T(x)?
	if len(e.Args) == 1 {
		if tv, ok := env.tryType(e.X); ok {
			x := env.eval(e.Args[0])
			if x.t.sort == "Int" && isIntType(tv) {
				lo, hi, _ := intRange(tv)
				_ = lo
				_ = hi
				if x.typ != nil && isIntType(x.typ) && x.typ != untypedInt {
					flo, fhi, _ := intRange(x.typ)
					if flo.Cmp(lo) >= 0 && fhi.Cmp(hi) <= 0 {
						return Val{t: x.t, typ: tv}
					}
					return Val{t: wrapTo(x.t, tv), typ: tv}
				}
				return Val{t: x.t, typ: tv}
			}
			if ex.sorts.sortOf(tv) == x.t.sort {
				return Val{t: x.t, typ: tv}
			}
			env.fail("unsupported conversion to %s", tv)
		}
	}
	// pure function / method application
	if v, ok := env.pureCall(e); ok {
		return v
	}
	env.fail("unknown function in spec: %s", specText(e.X))
	return Val{}
}

func specText(e *SExpr) string {
	switch e.Kind {
	case "ident":
		return e.Name
	case "sel":
		return specText(e.X) + "." + e.Name
	}
	return e.Kind
}

func (env *Env) refOf(x Val) T {
	if x.lv != nil && x.lv.kind == "struct" {
		return x.lv.ref
	}
	switch x.t.sort {
	case "Ref":
		return x.t
	case "Iface":
		return app("Ref", "if$ref", x.t)
	case "Slice":
		return app("Ref", "sl$arr", x.t)
	}
	env.fail("value has no reference")
	return T{}
}

func (env *Env) tryType(e *SExpr) (t types.Type, ok bool) {
	defer func() {
		if r := recover(); r != nil {
			if _, isE := r.(*EngineError); isE {
				ok = false
				return
			}
			panic(r)
		}
	}()
	switch e.Kind {
	case "ident":
		if _, isVar := env.vars[e.Name]; isVar {
			return nil, false
		}
		v := env.ident(e.Name)
		if v.isTyp {
			return v.typ, true
		}
	case "sel":
		if e.X.Kind == "ident" {
			if p := env.findImport(e.X.Name); p != nil {
				if o, ok := p.Scope().Lookup(e.Name).(*types.TypeName); ok {
					return o.Type(), true
				}
			}
		}
	}
	return nil, false
}

func (env *Env) expandPred(p *SpecFunc, e *SExpr) Val {
	if len(e.Args) != len(p.Params) {
		env.fail("pred %s: wrong number of arguments", p.Name)
	}
	n := *env
	n.vars = map[string]Val{}
	for k, v := range env.vars {
		n.vars[k] = v
	}
	for i, pd := range p.Params {
		n.vars[pd.Name] = env.eval(e.Args[i])
	}
	n.pkgPath = p.PkgPath
	n.clause = p.Body
	if p.Body.Expr == nil {
		ex2, err := parseSpecExpr(p.Body.Text)
		if err != nil {
			env.fail("%v", err)
		}
		p.Body.Expr = ex2
	}
	return n.eval(p.Body.Expr)
}

func (env *Env) applySpecFunc(sf *SpecFunc, e *SExpr) Val {
	ex := env.ex
	n := *env
	n.pkgPath = sf.PkgPath
	rt, rs := n.resolveTypeOrGhost(sf.RetTxt)
	if rt != nil {
		rs = ex.sorts.sortOf(rt)
	}
	var args []T
	var sorts []string
	for i, a := range e.Args {
		v := env.eval(a)
		if i < len(sf.Params) {
			pt, ps := n.resolveTypeOrGhost(sf.Params[i].TypeTxt)
			if pt != nil {
				ps = ex.sorts.sortOf(pt)
			}
			if ps == "Iface" && v.t.sort != "Iface" && v.typ != nil {
				v = Val{t: ex.mkIface(v.t, v.typ), typ: pt}
			}
			if bt, ok := v.typ.(*types.Basic); ok && bt.Kind() == types.UntypedNil {
				switch ps {
				case "Slice":
					v.t = T{"nil$Slice", "Slice"}
				case "Iface":
					v.t = T{"nil$Iface", "Iface"}
				}
			}
			if ps != v.t.sort {
				env.fail("specfunc %s: argument %d has sort %s, want %s", sf.Name, i, v.t.sort, ps)
			}
		}
		args = append(args, v.t)
		sorts = append(sorts, v.t.sort)
	}
	fn := "spec$" + sf.Name
	if !ex.declared[fn] {
		ex.declared[fn] = true
		if len(sorts) == 0 {
			ex.decls = append(ex.decls, fmt.Sprintf("(declare-const %s %s)", fn, rs))
		} else {
			ex.decls = append(ex.decls, fmt.Sprintf("(declare-fun %s (%s) %s)", fn, strings.Join(sorts, " "), rs))
		}
		ex.specFuncsUsed = append(ex.specFuncsUsed, sf.Name)
	}
	if len(args) == 0 {
		return Val{t: T{fn, rs}, typ: rt}
	}
	return Val{t: app(rs, fn, args...), typ: rt}
}

// pureCall: application of a Go function or method that has a `pure` contract.
func (env *Env) pureCall(e *SExpr) (Val, bool) {
	ex := env.ex
	var key string
	var sig *types.Signature
	var args []Val
	switch e.X.Kind {
	case "ident":
		for _, p := range []*types.Package{env.pkg(), env.callerPkg} {
			if p == nil {
				continue
			}
			if f, ok := p.Scope().Lookup(e.X.Name).(*types.Func); ok {
				key, sig = funcObjKey(f), f.Type().(*types.Signature)
				break
			}
		}
	case "sel":
		if e.X.X.Kind == "ident" {
			if _, isVar := env.vars[e.X.X.Name]; !isVar {
				if p := env.findImport(e.X.X.Name); p != nil {
					if f, ok := p.Scope().Lookup(e.X.Name).(*types.Func); ok {
						key, sig = funcObjKey(f), f.Type().(*types.Signature)
					}
				}
			}
		}
		if key == "" {
			recv := env.eval(e.X.X)
			if recv.typ == nil {
				return Val{}, false
			}
			obj, _, _ := types.LookupFieldOrMethod(recv.typ, true, env.pkg(), e.X.Name)
			if obj == nil {
				if n, ok := deref(recv.typ).(*types.Named); ok && n.Obj().Pkg() != nil {
					obj, _, _ = types.LookupFieldOrMethod(recv.typ, true, n.Obj().Pkg(), e.X.Name)
				}
			}
			f, ok := obj.(*types.Func)
			if !ok {
				return Val{}, false
			}
			key, sig = funcObjKey(f), f.Type().(*types.Signature)
			args = append(args, recv)
		}
	}
	if key == "" {
		return Val{}, false
	}
	fc := ex.L.contracts.lookup(key, ex.fc.PkgPath)
	isPure := fc != nil && fc.Pure
	if !isPure {
		for _, d := range ex.L.contracts.Defaults {
			if d.Pat.MatchString(key) {
				isPure = d.Kind == "pure"
				break
			}
		}
	}
	if !isPure {
		env.fail("function %s used in a spec is not declared pure", key)
	}
	for _, a := range e.Args {
		args = append(args, env.eval(a))
	}
	var ts []T
	var sorts []string
	off := len(args) - sig.Params().Len()
	for i, a := range args {
		if i >= off {
			pt := sig.Params().At(i - off).Type()
			if ex.sorts.sortOf(pt) == "Iface" && a.t.sort != "Iface" && a.typ != nil {
				a.t = ex.mkIface(a.t, a.typ)
			}
		}
		ts = append(ts, a.t)
		sorts = append(sorts, a.t.sort)
	}
	rt := sig.Results().At(0).Type()
	fn := ex.pureFn(key, sorts, ex.sorts.sortOf(rt))
	var r T
	if len(ts) == 0 {
		r = T{fn, ex.sorts.sortOf(rt)}
	} else {
		r = app(ex.sorts.sortOf(rt), fn, ts...)
	}
	// instantiate the (assumed or proved) postcondition of the pure function for this application, when the
	// application contains no bound variable
	if fc != nil && len(fc.Ensures) > 0 && !strings.Contains(r.s, "$q") && !ex.pureInst[r.s] {
		ex.pureInst[r.s] = ex.dry == 0
		penv := &Env{ex: ex, fr: env.fr, cur: env.cur, old: env.cur, vars: map[string]Val{"result": {t: r, typ: rt}, "result0": {t: r, typ: rt}}, pkgPath: fc.PkgPath, callerPkg: env.callerPkg}
		names := []string{}
		if sig.Recv() != nil {
			n := sig.Recv().Name()
			if n == "" || n == "_" {
				n = "self"
			}
			names = append(names, n)
		}
		for i := 0; i < sig.Params().Len(); i++ {
			names = append(names, sig.Params().At(i).Name())
		}
		for i, a := range args {
			if i < len(names) && names[i] != "" {
				penv.vars[names[i]] = a
			}
		}
		if len(args) > 0 && sig.Recv() != nil {
			penv.vars["self"] = args[0]
		}
		for _, e := range fc.Ensures {
			ex.assume(tTrue, penv.evalBool(e))
		}
	}
	return Val{t: r, typ: rt}, true
}

func deref(t types.Type) types.Type {
	if p, ok := t.Underlying().(*types.Pointer); ok {
		return p.Elem()
	}
	return t
}

func (env *Env) visited(e *SExpr) Val {
	ex := env.ex
	k := env.eval(e.Args[0])
	// find the Visited component of this frame whose key sort matches
	var found string
	for name, s := range ex.comps {
		if strings.HasPrefix(name, fmt.Sprintf("Visited$f%d$", env.fr.id)) && domSort(s) == k.t.sort {
			if found != "" && found != name {
				env.fail("visited(): more than one map range in scope; not supported")
			}
			found = name
		}
	}
	if found == "" {
		env.fail("visited(): no map range in this function")
	}
	return Val{t: sel(ex.get(env.cur, found), k.t), typ: types.Typ[types.Bool]}
}

// havocItem: one item of a modifies clause. Evaluated in env (pre-state); havocs in st.
func (env *Env) havocItem(item string, st *State, reach T) {
	ex := env.ex
	item = strings.TrimSpace(item)
	if item == "nothing" {
		return
	}
	if strings.HasSuffix(item, ".*") {
		base := strings.TrimSuffix(item, ".*")
		e, err := parseSpecExpr(base)
		if err != nil {
			env.fail("modifies %s: %v", item, err)
		}
		if ty, ok := env.tryType(e); ok {
			// every field of every object of the type
			stt := ty.Underlying().(*types.Struct)
			for i := 0; i < stt.NumFields(); i++ {
				ft := stt.Field(i).Type()
				if isStruct(ft) || isArray(ft) {
					continue
				}
				c := ex.fieldComp(ty, i)
				st.m[c] = ex.fresh(c, ex.comps[c])
			}
			return
		}
		x := env.eval(e)
		bt, isPtr := derefType(x.typ)
		if !isPtr || !isStruct(bt) {
			env.fail("modifies %s: not a pointer to struct", item)
		}
		var blv *LV
		if x.lv != nil {
			blv = x.lv
		} else {
			blv = &LV{kind: "struct", ref: x.t, typ: bt}
		}
		ex.havocLV(st, reach, blv)
		return
	}
	if strings.HasSuffix(item, "[*]") {
		e, err := parseSpecExpr(strings.TrimSuffix(item, "[*]"))
		if err != nil {
			env.fail("modifies %s: %v", item, err)
		}
		x := env.eval(e)
		switch u := x.typ.Underlying().(type) {
		case *types.Slice:
			c := ex.elemsComp(u.Elem())
			cur := ex.get(st, c)
			arr := app("Ref", "sl$arr", x.t)
			ex.set(st, c, ite(eq(arr, tNil), cur, store(cur, arr, ex.fresh("hvrow", arraySort("Int", ex.sorts.sortOf(u.Elem()))))))
			return
		case *types.Map:
			has, val, ln := ex.mapComps(u)
			ks, vs := ex.sorts.sortOf(u.Key()), ex.sorts.sortOf(u.Elem())
			ex.set(st, has, store(ex.get(st, has), x.t, ex.fresh("hvhas", arraySort(ks, "Bool"))))
			ex.set(st, val, store(ex.get(st, val), x.t, ex.fresh("hvval", arraySort(ks, vs))))
			l := ex.fresh("hvlen", "Int")
			ex.assume(tTrue, app("Bool", ">=", l, intLit(0)))
			ex.set(st, ln, store(ex.get(st, ln), x.t, l))
			return
		}
		env.fail("modifies %s: not a slice or map", item)
	}
	e, err := parseSpecExpr(item)
	if err != nil {
		env.fail("modifies %s: %v", item, err)
	}
	// one map entry: m[k]
	if e.Kind == "index" {
		x := env.eval(e.X)
		if x.typ != nil {
			if u, ok := x.typ.Underlying().(*types.Map); ok {
				k := env.eval(e.Y)
				has, val, ln := ex.mapComps(u)
				hc, vc, lc := ex.get(st, has), ex.get(st, val), ex.get(st, ln)
				ex.set(st, has, store(hc, x.t, store(sel(hc, x.t), k.t, ex.fresh("hvhas", "Bool"))))
				nv := ex.freshOfType("hvval", u.Elem(), reach, nil)
				ex.set(st, val, store(vc, x.t, store(sel(vc, x.t), k.t, nv)))
				l := ex.fresh("hvlen", "Int")
				ex.assume(tTrue, app("Bool", ">=", l, intLit(0)))
				ex.set(st, ln, store(lc, x.t, l))
				return
			}
		}
		env.fail("modifies %s: only map entries can be named by index", item)
	}
	// ghost variable
	if e.Kind == "ident" {
		if _, isVar := env.vars[e.Name]; !isVar {
			if g, ok := ex.L.contracts.GhostVars[e.Name]; ok {
				v := env.ghostVar(g)
				comp := "G$" + g.Name
				nv := ex.fresh(comp, ex.comps[comp])
				if v.typ != nil {
					ex.assumeWellTyped(nv, v.typ, reach, nil)
				}
				st.m[comp] = nv
				return
			}
		}
	}
	if e.Kind == "unary" && e.Op == "*" {
		x := env.eval(e.X)
		if x.lv != nil {
			ex.havocLV(st, reach, x.lv)
			return
		}
		pt, ok := x.typ.Underlying().(*types.Pointer)
		if !ok {
			env.fail("modifies %s: not a pointer", item)
		}
		ex.havocLV(st, reach, env.ptrLoc(x.t, pt.Elem()))
		return
	}
	if e.Kind == "sel" {
		// Type.field : the whole component
		if ty, ok := env.tryType(e.X); ok {
			if stt, ok := ty.Underlying().(*types.Struct); ok {
				for i := 0; i < stt.NumFields(); i++ {
					if stt.Field(i).Name() == e.Name {
						c := ex.fieldComp(ty, i)
						st.m[c] = ex.fresh(c, ex.comps[c])
						return
					}
				}
			}
			if g, ok := ex.L.contracts.GhostFields[e.Name]; ok {
				comp, _ := env.ghostFieldComp(g)
				st.m[comp] = ex.fresh(comp, ex.comps[comp])
				return
			}
			env.fail("modifies %s: no such field", item)
		}
		x := env.eval(e.X)
		if x.typ != nil {
			obj, index, _ := types.LookupFieldOrMethod(x.typ, true, nil, e.Name)
			if obj == nil {
				if n, ok := deref(x.typ).(*types.Named); ok && n.Obj().Pkg() != nil {
					obj, index, _ = types.LookupFieldOrMethod(x.typ, true, n.Obj().Pkg(), e.Name)
				}
			}
			if f, ok := obj.(*types.Var); ok && f.IsField() {
				bt, isPtr := derefType(x.typ)
				if !isPtr && !(x.lv != nil && x.lv.kind == "struct") {
					env.fail("modifies %s: base is not a pointer", item)
				}
				var lv *LV
				if x.lv != nil {
					lv = x.lv
				} else {
					lv = &LV{kind: "struct", ref: x.t, typ: bt}
				}
				for k, i := range index {
					lv = ex.fieldLV(lv, i)
					if k < len(index)-1 && lv.kind == "comp" {
						// embedded pointer: follow it
						pt := lv.typ.Underlying().(*types.Pointer)
						lv = &LV{kind: "struct", ref: ex.load(env.cur, lv), typ: pt.Elem()}
					}
				}
				ex.havocLV(st, reach, lv)
				return
			}
		}
		if g, ok := ex.L.contracts.GhostFields[e.Name]; ok {
			comp, ty := env.ghostFieldComp(g)
			nv := ex.fresh("hv", elemSort(ex.comps[comp]))
			if ty != nil {
				ex.assumeWellTyped(nv, ty, reach, nil)
			}
			ex.set(st, comp, store(ex.get(st, comp), env.refOf(x), nv))
			return
		}
	}
	env.fail("cannot interpret modifies item %q", item)
}

var _ = constant.MakeBool
