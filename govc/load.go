package main

import (
	"crypto/sha256"
	"fmt"
	"go/ast"
	"go/printer"
	"go/token"
	"go/types"
	"os"
	"path/filepath"
	"sort"
	"strings"

	"golang.org/x/tools/go/packages"
	"golang.org/x/tools/go/ssa"
	"golang.org/x/tools/go/ssa/ssautil"
)

var modulePath = "github.com/google/martian/v3"

type Loaded struct {
	repo      string
	fset      *token.FileSet
	pkgs      []*packages.Package
	prog      *ssa.Program
	spkgs     map[string]*ssa.Package
	contracts *Contracts
	sizes     types.Sizes
	immut     map[*ssa.Global]bool
	allTypes  map[string]*types.Package
	funcs     map[string]*ssa.Function
	wrappers  map[string]*ssa.Function // synthetic (*T).M wrappers around value-receiver methods, by key
}

// contractFiles lists /repo/**/zz_contracts_verif.go with their package import path.
func contractFiles(repo string) (map[string]string, error) {
	out := map[string]string{}
	err := filepath.Walk(repo, func(p string, info os.FileInfo, err error) error {
		if err != nil {
			return nil
		}
		if info.IsDir() && (info.Name() == ".git" || info.Name() == "testdata") {
			return filepath.SkipDir
		}
		if !info.IsDir() && info.Name() == "zz_contracts_verif.go" {
			rel, _ := filepath.Rel(repo, filepath.Dir(p))
			pp := modulePath
			if rel != "." {
				pp += "/" + filepath.ToSlash(rel)
			}
			out[p] = pp
		}
		return nil
	})
	return out, err
}

func loadContracts(repo, specDir string) (*Contracts, error) {
	cs := newContracts()
	files, err := contractFiles(repo)
	if err != nil {
		return nil, err
	}
	var paths []string
	for p := range files {
		paths = append(paths, p)
	}
	sort.Strings(paths)
	for _, p := range paths {
		if err := cs.loadContractFile(p, files[p], importsOf(filepath.Dir(p))); err != nil {
			return nil, err
		}
	}
	specs, _ := filepath.Glob(filepath.Join(specDir, "*.spec"))
	sort.Strings(specs)
	for _, p := range specs {
		if err := cs.loadContractFile(p, "", map[string]string{}); err != nil {
			return nil, err
		}
	}
	if err := cs.parseAll(); err != nil {
		return nil, err
	}
	return cs, nil
}

func loadPackages(repo string, cs *Contracts, pkgPaths []string) (*Loaded, error) {
	var pats []string
	for _, p := range pkgPaths {
		rel := strings.TrimPrefix(strings.TrimPrefix(p, modulePath), "/")
		if rel == "" {
			pats = append(pats, ".")
		} else {
			pats = append(pats, "./"+rel)
		}
	}
	cfg := &packages.Config{
		Mode: packages.NeedName | packages.NeedFiles | packages.NeedCompiledGoFiles | packages.NeedImports | packages.NeedTypes |
			packages.NeedTypesSizes | packages.NeedSyntax | packages.NeedTypesInfo,
		Dir: repo, BuildFlags: []string{"-tags=verif"},
		Env: append(os.Environ(), "GOFLAGS=-mod=mod", "GOPROXY=off", "GOSUMDB=off", "GOTOOLCHAIN=local"),
	}
	pkgs, err := packages.Load(cfg, pats...)
	if err != nil {
		return nil, err
	}
	var errs []string
	for _, p := range pkgs {
		for _, e := range p.Errors {
			errs = append(errs, e.Error())
		}
	}
	if len(errs) > 0 {
		return nil, fmt.Errorf("package errors (the tree must compile):\n  %s", strings.Join(errs, "\n  "))
	}
	prog, spkgs := ssautil.Packages(pkgs, ssa.GlobalDebug)
	L := &Loaded{repo: repo, fset: pkgs[0].Fset, pkgs: pkgs, prog: prog, spkgs: map[string]*ssa.Package{}, contracts: cs,
		immut: map[*ssa.Global]bool{}, allTypes: map[string]*types.Package{}, funcs: map[string]*ssa.Function{}, wrappers: map[string]*ssa.Function{}}
	L.sizes = pkgs[0].TypesSizes
	if L.sizes == nil {
		L.sizes = types.SizesFor("gc", "amd64")
	}
	for i, sp := range spkgs {
		if sp == nil {
			return nil, fmt.Errorf("no SSA package for %s", pkgs[i].PkgPath)
		}
		sp.Build()
		L.spkgs[pkgs[i].PkgPath] = sp
	}
	var walk func(p *types.Package)
	walk = func(p *types.Package) {
		if _, ok := L.allTypes[p.Path()]; ok {
			return
		}
		L.allTypes[p.Path()] = p
		for _, i := range p.Imports() {
			walk(i)
		}
	}
	for _, p := range pkgs {
		walk(p.Types)
	}
	// index functions (including closures) by key
	for _, sp := range L.spkgs {
		for _, m := range sp.Members {
			switch x := m.(type) {
			case *ssa.Function:
				L.indexFn(x)
			case *ssa.Type:
				for _, t := range []types.Type{x.Type(), types.NewPointer(x.Type())} {
					ms := prog.MethodSets.MethodSet(t)
					for i := 0; i < ms.Len(); i++ {
						if f := prog.MethodValue(ms.At(i)); f != nil && f.Synthetic == "" {
							L.indexFn(f)
						} else if f != nil && strings.HasPrefix(f.Synthetic, "wrapper for") && f.Blocks != nil {
							// (*T).M promoted from a value-receiver method (T).M: a contract written for the pointer
							// method is checked against this wrapper (load *recv, call (T).M on the copy)
							if _, ok := L.funcs[f.String()]; !ok {
								L.wrappers[f.String()] = f
							}
						}
					}
				}
			}
		}
	}
	return L, nil
}

func (L *Loaded) indexFn(f *ssa.Function) {
	if _, ok := L.funcs[f.String()]; ok {
		return
	}
	L.funcs[f.String()] = f
	for _, a := range f.AnonFuncs {
		L.indexFn(a)
	}
}

func (L *Loaded) typesPkg(path string) *types.Package { return L.allTypes[path] }

func (L *Loaded) pkgByName(name string) *types.Package {
	var found *types.Package
	var paths []string
	for p := range L.allTypes {
		paths = append(paths, p)
	}
	sort.Strings(paths)
	for _, p := range paths {
		if L.allTypes[p].Name() == name {
			if found == nil || len(p) < len(found.Path()) {
				found = L.allTypes[p]
			}
		}
	}
	return found
}

func (L *Loaded) ssaGlobal(v *types.Var) *ssa.Global {
	if v.Pkg() == nil {
		return nil
	}
	sp := L.prog.Package(v.Pkg())
	if sp == nil {
		return nil
	}
	g, _ := sp.Members[v.Name()].(*ssa.Global)
	return g
}

// globalImmutable: no store to the global outside package initialisation (in the loaded packages); globals of
// dependencies are assumed immutable.
func (L *Loaded) globalImmutable(g *ssa.Global) bool {
	if v, ok := L.immut[g]; ok {
		return v
	}
	imm := true
	if sp, ok := L.spkgs[g.Pkg.Pkg.Path()]; ok {
		var visit func(f *ssa.Function)
		visit = func(f *ssa.Function) {
			if f.Name() == "init" && f.Parent() == nil {
				return
			}
			for _, b := range f.Blocks {
				for _, in := range b.Instrs {
					if s, ok := in.(*ssa.Store); ok && s.Addr == g {
						imm = false
					}
					for _, op := range in.Operands(nil) {
						if *op == g {
							// address used other than as the operand of a load
							if u, isLoad := in.(*ssa.UnOp); !(isLoad && u.Op == token.MUL) {
								if _, isStore := in.(*ssa.Store); !isStore {
									if _, isDbg := in.(*ssa.DebugRef); !isDbg {
										imm = false
									}
								}
							}
						}
					}
				}
			}
			for _, a := range f.AnonFuncs {
				visit(a)
			}
		}
		for _, f := range L.funcs {
			if f.Pkg == sp && f.Parent() == nil {
				visit(f)
			}
		}
	}
	L.immut[g] = imm
	return imm
}

// bodyHash: hash of the printed source of a function declaration (reported in evidence).
func (L *Loaded) bodyHash(fn *ssa.Function) (file string, hash string) {
	syn := fn.Syntax()
	if syn == nil {
		return "", ""
	}
	var sb strings.Builder
	switch n := syn.(type) {
	case *ast.FuncDecl:
		printer.Fprint(&sb, L.fset, n)
	case *ast.FuncLit:
		printer.Fprint(&sb, L.fset, n)
	}
	h := sha256.Sum256([]byte(sb.String()))
	return strings.TrimPrefix(L.fset.Position(syn.Pos()).Filename, "/repo/"), fmt.Sprintf("%x", h[:8])
}
