package main

// Instruction semantics (translation rules of DESIGN §2.2, over go/ssa).

import (
	"fmt"
	"go/ast"
	"go/constant"
	"go/printer"
	"go/token"
	"go/types"
	"strings"

	"golang.org/x/tools/go/ssa"
)

// val: SMT term of an SSA value in this frame.
func (fr *Frame) val(v ssa.Value) T {
	ex := fr.ex
	switch x := v.(type) {
	case *ssa.Const:
		if x.Value == nil {
			return ex.sorts.zero(x.Type())
		}
		return ex.constTerm(x.Value, x.Type())
	case *ssa.Global:
		return ex.globalRef(x)
	case *ssa.Function:
		name := "fn$" + sanitize(x.String())
		if !ex.declared[name] {
			ex.declared[name] = true
			ex.decls = append(ex.decls, fmt.Sprintf("(declare-const %s Ref)", name), fmt.Sprintf("(assert (not (= %s nil)))", name))
		}
		return T{name, "Ref"}
	case *ssa.Builtin:
		panic(engineErr("needs-subset", "builtin %s used as a value", x.Name()))
	}
	if t, ok := fr.vals[v]; ok {
		return t
	}
	if lv, ok := fr.lvals[v]; ok {
		// a pointer to a field/element used as a first-class value
		return fr.escapeLV(v, lv)
	}
	if _, ok := fr.tuples[v]; ok {
		panic(engineErr("internal", "tuple %s used as value", v.Name()))
	}
	panic(engineErr("internal", "no value for %s = %s in %s", v.Name(), v, fr.fn))
}

// escapeLV: a pointer into an object that is passed around as a value. Supported for comp locations without path:
// the pointer is an injective function of the owner.
func (fr *Frame) escapeLV(v ssa.Value, lv *LV) T {
	ex := fr.ex
	if lv.kind == "struct" || lv.kind == "array" {
		return lv.ref
	}
	if len(lv.path) > 0 {
		panic(engineErr("needs-subset", "pointer into a struct value escapes: %s in %s", v, fr.fn))
	}
	fn := "addr$" + lv.comp
	sig := "Ref"
	if len(lv.idx) == 2 {
		sig = "Ref Int"
	}
	if !ex.declared[fn] {
		ex.declared[fn] = true
		ex.decls = append(ex.decls, fmt.Sprintf("(declare-fun %s (%s) Ref)", fn, sig))
	}
	t := app("Ref", fn, lv.idx...)
	ex.emit(fmt.Sprintf("(assert (not (= %s nil)))", t.s))
	ex.escaped[t.s] = lv
	return t
}

// lvOf: the location a pointer-typed SSA value designates.
func (fr *Frame) lvOf(p ssa.Value) *LV {
	if lv, ok := fr.lvals[p]; ok {
		return lv
	}
	t := fr.val(p)
	if lv, ok := fr.ex.escaped[t.s]; ok {
		return lv
	}
	pt, ok := p.Type().Underlying().(*types.Pointer)
	if !ok {
		panic(engineErr("internal", "lvOf non-pointer %s", p))
	}
	// immutable globals are read through immutableGlobalValue in load
	return fr.ex.ptrLV(t, pt.Elem())
}

func (fr *Frame) setVal(v ssa.Value, t T) {
	fr.vals[v] = fr.ex.define(fr.vname(v), t)
}

func (fr *Frame) safeOn(class string) bool {
	fc := fr.ex.fc
	return fc != nil && fc.Safe[class]
}

func (fr *Frame) safety(class string, in ssa.Instruction, reach, cond T, what string) {
	// whatever the class, execution continues past the instruction only when it did not panic
	defer func() {
		if class != "panic" {
			fr.ex.assume(reach, cond)
		}
	}()
	if !fr.safeOn(class) {
		return
	}
	name := "safe:" + class
	if src := fr.srcText(in); src != "" {
		name += ":" + src
		what += " [" + src + "]"
	}
	fr.ex.oblige(name, "safe", nil, reach, cond, fr.ex.pos(instrPos(in)), what)
}

// srcText: the source expression an instruction was generated from (used in obligation names, so that names do
// not depend on line numbers or SSA register numbers).
func (fr *Frame) srcText(in ssa.Instruction) string {
	pos := in.Pos()
	if !pos.IsValid() {
		return ""
	}
	root := fr.fn.Syntax()
	for f := fr; root == nil && f.parent != nil; f = f.parent {
		root = f.parent.fn.Syntax()
	}
	if root == nil {
		return ""
	}
	var found ast.Node
	ast.Inspect(root, func(n ast.Node) bool {
		if n == nil || found != nil {
			return false
		}
		if pos < n.Pos() || pos >= n.End() {
			return false
		}
		switch x := n.(type) {
		case *ast.SliceExpr:
			if x.Lbrack == pos {
				found = n
			}
		case *ast.IndexExpr:
			if x.Lbrack == pos {
				found = n
			}
		case *ast.CallExpr:
			if x.Lparen == pos {
				found = n
			}
		case *ast.BinaryExpr:
			if x.OpPos == pos {
				found = n
			}
		case *ast.TypeAssertExpr:
			if x.Lparen == pos {
				found = n
			}
		case *ast.StarExpr:
			if x.Star == pos {
				found = n
			}
		case *ast.SelectorExpr:
			if x.Sel.Pos() == pos {
				found = n
			}
		}
		return found == nil
	})
	if found == nil {
		return ""
	}
	var sb strings.Builder
	printer.Fprint(&sb, fr.ex.L.fset, found)
	t := strings.Join(strings.Fields(sb.String()), "")
	if len(t) > 60 {
		t = t[:60]
	}
	return t
}

func instrPos(in ssa.Instruction) token.Pos {
	if p := in.Pos(); p.IsValid() {
		return p
	}
	// some instructions (IndexAddr of a range loop, loads) carry no position: use the block's
	if b := in.Block(); b != nil {
		found := token.NoPos
		for _, o := range b.Instrs {
			if p := o.Pos(); p.IsValid() {
				found = p
			}
			if o == in && found.IsValid() {
				return found
			}
		}
		return token0(b)
	}
	return token.NoPos
}

func (fr *Frame) nonNil(in ssa.Instruction, reach T, ref T, what string) {
	fr.safety("nil", in, reach, not(eq(ref, tNil)), "nil dereference: "+what)
}

func (fr *Frame) execBlock(b *ssa.BasicBlock, skip int, reach T, st *State) {
	ex := fr.ex
	for _, in := range b.Instrs[skip:] {
		if reach.s == "false" {
			return
		}
		fr.curInstr = in
		switch x := in.(type) {
		case *ssa.DebugRef:
		case *ssa.Alloc:
			r := ex.allocRef(st, reach, fr.vname(x))
			fr.vals[x] = r
			elem := x.Type().Underlying().(*types.Pointer).Elem()
			ex.zeroInit(st, ex.ptrLV(r, elem))
		case *ssa.BinOp:
			fr.setVal(x, fr.binop(x, reach, st))
		case *ssa.UnOp:
			fr.unop(x, reach, st)
		case *ssa.Call:
			res := fr.call(x, &x.Call, reach, st)
			sig := x.Call.Signature()
			switch sig.Results().Len() {
			case 0:
			case 1:
				fr.vals[x] = res[0]
			default:
				fr.tuples[x] = res
			}
			if res == nil && sig.Results().Len() > 0 {
				panic(engineErr("internal", "call produced no results: %s", x))
			}
			if fr.noReturn(&x.Call) {
				reach = tFalse
			}
		case *ssa.ChangeInterface:
			fr.vals[x] = fr.val(x.X)
		case *ssa.ChangeType:
			if lv, ok := fr.lvals[x.X]; ok {
				fr.lvals[x] = lv
			} else {
				fr.vals[x] = fr.val(x.X)
			}
		case *ssa.Convert:
			fr.setVal(x, fr.convert(x, reach, st))
		case *ssa.Extract:
			tu, ok := fr.tuples[x.Tuple]
			if !ok {
				panic(engineErr("internal", "extract from non-tuple %s", x.Tuple))
			}
			fr.vals[x] = tu[x.Index]
		case *ssa.Field:
			sv := fr.val(x.X)
			stt := x.X.Type().Underlying().(*types.Struct)
			f := stt.Field(x.Field)
			ss := ex.sorts.sortOf(x.X.Type())
			fr.setVal(x, app(ex.sorts.sortOf(f.Type()), ex.sorts.fieldAcc(ss[2:], x.Field, f), sv))
		case *ssa.FieldAddr:
			base := fr.structLV(x.X, x, reach)
			lv := ex.fieldLV(base, x.Field)
			fr.lvals[x] = lv
			fr.guardCheck(x, base, reach, st)
			if lv.kind != "comp" {
				fr.vals[x] = lv.ref
			}
		case *ssa.Index:
			// array value indexing
			av := fr.val(x.X)
			i := fr.val(x.Index)
			if a, ok := x.X.Type().Underlying().(*types.Array); ok {
				fr.safety("index", x, reach, and(app("Bool", "<=", intLit(0), i), app("Bool", "<", i, intLit(a.Len()))), "array index in range")
				fr.setVal(x, sel(av, i))
			} else {
				panic(engineErr("needs-subset", "Index on %s", x.X.Type()))
			}
		case *ssa.IndexAddr:
			fr.indexAddr(x, reach, st)
		case *ssa.Lookup:
			fr.lookup(x, reach, st)
		case *ssa.MakeChan:
			ch := ex.allocRef(st, reach, fr.vname(x))
			fr.vals[x] = ch
			ex.assume(reach, eq(app("Int", "chan$cap", ch), fr.val(x.Size)))
		case *ssa.MakeMap:
			r := ex.allocRef(st, reach, fr.vname(x))
			fr.vals[x] = r
			m := x.Type().Underlying().(*types.Map)
			has, _, ln := ex.mapComps(m)
			ks := ex.sorts.sortOf(m.Key())
			ex.set(st, has, store(ex.get(st, has), r, T{fmt.Sprintf("((as const %s) false)", arraySort(ks, "Bool")), arraySort(ks, "Bool")}))
			ex.set(st, ln, store(ex.get(st, ln), r, intLit(0)))
		case *ssa.MakeSlice:
			fr.makeSlice(x, reach, st)
		case *ssa.MakeClosure:
			r := ex.allocRef(st, reach, fr.vname(x))
			fr.vals[x] = r
			fr.closures[x] = &closureInfo{fn: x.Fn.(*ssa.Function), bindings: x.Bindings, frame: fr}
		case *ssa.MakeInterface:
			fr.setVal(x, ex.mkIface(fr.val(x.X), x.X.Type()))
		case *ssa.Next:
			fr.next(x, reach, st)
		case *ssa.Phi:
			panic(engineErr("internal", "phi not at block start"))
		case *ssa.Range:
			fr.vals[x] = fr.val(x.X) // iterator = the collection
			if _, ok := x.X.Type().Underlying().(*types.Map); ok {
				fr.rangeStart(x, reach, st)
			}
		case *ssa.Select:
			fr.selectInstr(x, reach, st)
		case *ssa.Slice:
			fr.sliceInstr(x, reach, st)
		case *ssa.TypeAssert:
			fr.typeAssert(x, reach, st)
		case *ssa.Defer:
			armed := ex.comp(fmt.Sprintf("Armed$f%d$%d", fr.id, len(fr.defers)), "Bool")
			// evaluate operands now (SSA values are immutable; nothing to copy)
			fr.defers = append(fr.defers, &deferRec{instr: x, armed: armed})
			ex.set(st, armed, tTrue)
		case *ssa.Go:
			// ghost hooks see the spawn as a call site (arguments only)
			{
				bind := map[string]Val{}
				for i, a := range x.Call.Args {
					if _, isLV := fr.lvals[a]; !isLV {
						bind[fmt.Sprintf("arg%d", i)] = Val{t: fr.val(a), typ: a.Type()}
					}
				}
				fr.ghostAt("call", fr.callOrd[x], fr.callName[x], "before", reach, st, bind)
			}
			// a spawned closure that is itself under contract: its precondition is owed at the spawn site
			fr.spawnPre(x, reach, st)
			// sequentialised: a spawn has no effect at the spawn site (DESIGN §2.3 rule 4)
			ex.abstractions["go statement at "+ex.pos(x.Pos())+": spawned call not executed at the spawn site"] = true
		case *ssa.If:
			c := fr.val(x.Cond)
			t := ex.define(fmt.Sprintf("edge_f%d_b%d_t", fr.id, b.Index), and(reach, c))
			f := ex.define(fmt.Sprintf("edge_f%d_b%d_f", fr.id, b.Index), and(reach, not(c)))
			fr.outEdge(b, b.Succs[0], t, st)
			fr.outEdge(b, b.Succs[1], f, st)
			return
		case *ssa.Jump:
			fr.outEdge(b, b.Succs[0], reach, st)
			return
		case *ssa.MapUpdate:
			{
				bind := map[string]Val{"arg0": {t: fr.val(x.Map), typ: x.Map.Type()}, "arg1": {t: fr.val(x.Key), typ: x.Key.Type()}, "arg2": {t: fr.val(x.Value), typ: x.Value.Type()}}
				fr.ghostAt("mapupdate", fr.mupOrd[x], "mapupdate", "before", reach, st, bind)
				fr.mapUpdate(x, reach, st)
				fr.ghostAt("mapupdate", fr.mupOrd[x], "mapupdate", "after", reach, st, bind)
			}
		case *ssa.Panic:
			fr.safety("panic", x, reach, tFalse, "explicit panic is unreachable")
			return
		case *ssa.Return:
			fr.ret(x, reach, st)
			return
		case *ssa.RunDefers:
			fr.runDefers(reach, st)
		case *ssa.Send:
			fr.send(x, reach, st)
		case *ssa.Store:
			lv := fr.lvOf(x.Addr)
			if lv.kind != "comp" || len(lv.idx) == 1 {
				if base := lvBase(lv); base.s != "" {
					fr.nonNil(x, reach, base, "store")
				}
			}
			ex.storeLV(st, lv, fr.val(x.Val))
		default:
			panic(engineErr("needs-subset", "instruction %T (%s) in %s", in, in, fr.fn))
		}
	}
}

func lvBase(lv *LV) T {
	switch lv.kind {
	case "comp":
		return lv.idx[0]
	}
	return lv.ref
}

func (fr *Frame) outEdge(from, to *ssa.BasicBlock, reach T, st *State) {
	if fr.isBackEdge(from, to) {
		fr.backEdge(from, to, reach, st)
		return
	}
	fr.outs[from] = append(fr.outs[from], edge{to: to, reach: reach, st: st.clone()})
}

// structLV: the struct location designated by the operand of a FieldAddr.
func (fr *Frame) structLV(p ssa.Value, in ssa.Instruction, reach T) *LV {
	if lv, ok := fr.lvals[p]; ok {
		return lv
	}
	ref := fr.val(p)
	if lv, ok := fr.ex.escaped[ref.s]; ok {
		return lv
	}
	fr.nonNil(in, reach, ref, p.Name())
	elem := p.Type().Underlying().(*types.Pointer).Elem()
	return &LV{kind: "struct", ref: ref, typ: elem}
}

func (fr *Frame) binop(x *ssa.BinOp, reach T, st *State) T {
	ex := fr.ex
	a, b := fr.val(x.X), fr.val(x.Y)
	ty := x.X.Type()
	basic, _ := ty.Underlying().(*types.Basic)
	isInt := basic != nil && basic.Info()&types.IsInteger != 0
	isStr := basic != nil && basic.Info()&types.IsString != 0
	switch x.Op {
	case token.EQL:
		return eq(a, b)
	case token.NEQ:
		return not(eq(a, b))
	case token.LSS, token.LEQ, token.GTR, token.GEQ:
		op := map[token.Token]string{token.LSS: "<", token.LEQ: "<=", token.GTR: ">", token.GEQ: ">="}[x.Op]
		if isStr {
			switch x.Op {
			case token.LSS:
				return app("Bool", "str$lt", a, b)
			case token.GTR:
				return app("Bool", "str$lt", b, a)
			case token.LEQ:
				return not(app("Bool", "str$lt", b, a))
			default:
				return not(app("Bool", "str$lt", a, b))
			}
		}
		return app("Bool", op, a, b)
	case token.ADD:
		if isStr {
			r := app("Str", "str$concat", a, b)
			ex.assume(tTrue, eq(app("Int", "len$Str", r), app("Int", "+", app("Int", "len$Str", a), app("Int", "len$Str", b))))
			return r
		}
		if isInt {
			return wrapAddSub(app("Int", "+", a, b), x.Type())
		}
		return app(a.sort, "+", a, b)
	case token.SUB:
		if isInt {
			return wrapAddSub(app("Int", "-", a, b), x.Type())
		}
		return app(a.sort, "-", a, b)
	case token.MUL:
		if isInt {
			return wrapTo(app("Int", "*", a, b), x.Type())
		}
		return app(a.sort, "*", a, b)
	case token.QUO:
		if isInt {
			fr.safety("div", x, reach, not(eq(b, intLit(0))), "division by zero")
			return wrapTo(app("Int", "go$div", a, b), x.Type())
		}
		return app(a.sort, "/", a, b)
	case token.REM:
		fr.safety("div", x, reach, not(eq(b, intLit(0))), "division by zero")
		return app("Int", "go$rem", a, b)
	case token.AND, token.OR, token.XOR, token.AND_NOT:
		if a.sort == "Bool" {
			switch x.Op {
			case token.AND:
				return and(a, b)
			case token.OR:
				return or(a, b)
			case token.XOR:
				return not(eq(a, b))
			}
		}
		if x.Op == token.AND {
			if c, ok := x.Y.(*ssa.Const); ok && c.Value != nil {
				if m, ok2 := constant.Int64Val(c.Value); ok2 && m > 0 && (m&(m+1)) == 0 {
					if lo, _, _ := intRange(ty); lo != nil && lo.Sign() == 0 {
						return app("Int", "mod", a, intLit(m+1))
					}
				}
			}
		}
		fnn := map[token.Token]string{token.AND: "bit$and", token.OR: "bit$or", token.XOR: "bit$xor", token.AND_NOT: "bit$and"}[x.Op]
		r := ex.define("bits", app("Int", fnn, a, b))
		ex.assume(tTrue, inRange(r, x.Type()))
		return r
	case token.SHL:
		if c, ok := x.Y.(*ssa.Const); ok && c.Value != nil {
			if k, ok2 := constant.Int64Val(c.Value); ok2 && k >= 0 && k < 63 {
				return wrapTo(app("Int", "*", a, intLit(int64(1)<<uint(k))), x.Type())
			}
		}
		r := ex.define("shl", app("Int", "bit$shl", a, b))
		ex.assume(tTrue, inRange(r, x.Type()))
		return r
	case token.SHR:
		if c, ok := x.Y.(*ssa.Const); ok && c.Value != nil {
			if k, ok2 := constant.Int64Val(c.Value); ok2 && k >= 0 && k < 63 {
				return app("Int", "div", a, intLit(int64(1)<<uint(k)))
			}
		}
		r := ex.define("shr", app("Int", "bit$shr", a, b))
		ex.assume(tTrue, inRange(r, x.Type()))
		return r
	}
	panic(engineErr("needs-subset", "binop %s", x.Op))
}

func (fr *Frame) unop(x *ssa.UnOp, reach T, st *State) {
	ex := fr.ex
	switch x.Op {
	case token.NOT:
		fr.setVal(x, not(fr.val(x.X)))
	case token.SUB:
		a := fr.val(x.X)
		if a.sort == "Int" {
			fr.setVal(x, wrapAddSub(app("Int", "-", intLit(0), a), x.Type()))
		} else {
			fr.setVal(x, app(a.sort, "-", a))
		}
	case token.XOR:
		a := fr.val(x.X)
		fr.setVal(x, wrapTo(app("Int", "-", app("Int", "-", intLit(0), a), intLit(1)), x.Type()))
	case token.MUL: // load
		if g, ok := x.X.(*ssa.Global); ok {
			if v, ok2 := ex.immutableGlobalValue(g); ok2 {
				fr.vals[x] = v
				return
			}
		}
		lv := fr.lvOf(x.X)
		if _, direct := fr.lvals[x.X]; !direct {
			fr.nonNil(x, reach, lvBase(lv), "load through "+x.X.Name())
		}
		v := ex.define(fr.vname(x), ex.load(st, lv))
		fr.vals[x] = v
		// a value read from a component that has not been written since entry was already in the heap at entry:
		// what it refers to was allocated then (so it differs from everything this function allocates)
		// A component that was written may hold references to objects a callee allocated, which the caller's
		// allocation map does not know: no allocatedness is assumed for those.
		if lv.kind == "comp" && ex.get(st, lv.comp).s == lv.comp+"$init" {
			fr.assumeLoaded(v, x.Type(), reach, fr.entry)
		} else {
			fr.assumeLoaded(v, x.Type(), reach, nil)
		}
	case token.ARROW: // channel receive
		fr.ghostAt("recv", fr.recvOrd[x], "recv", "before", reach, st, map[string]Val{"ch": {t: fr.val(x.X), typ: x.X.Type()}})
		v := ex.freshOfType(fr.vname(x), chanElem(x.X.Type()), reach, st)
		if x.CommaOk {
			fr.tuples[x] = []T{v, ex.fresh(fr.vname(x)+"_ok", "Bool")}
		} else {
			fr.vals[x] = v
		}
		fr.ghostAt("recv", fr.recvOrd[x], "recv", "after", reach, st, map[string]Val{"ch": {t: fr.val(x.X), typ: x.X.Type()}, "result": {t: v, typ: chanElem(x.X.Type())}})
	default:
		panic(engineErr("needs-subset", "unop %s", x.Op))
	}
}

func chanElem(t types.Type) types.Type { return t.Underlying().(*types.Chan).Elem() }

// assumeLoaded: type invariants of values read from the heap (ranges hold for every stored value; references
// reachable from the heap are allocated).
func (fr *Frame) assumeLoaded(v T, ty types.Type, reach T, st *State) {
	switch ty.Underlying().(type) {
	case *types.Struct, *types.Array:
		return
	}
	fr.ex.assumeWellTyped(v, ty, reach, st)
}

func (fr *Frame) convert(x *ssa.Convert, reach T, st *State) T {
	ex := fr.ex
	v := fr.val(x.X)
	from, to := x.X.Type().Underlying(), x.Type().Underlying()
	fb, _ := from.(*types.Basic)
	tb, _ := to.(*types.Basic)
	switch {
	case fb != nil && tb != nil && fb.Info()&types.IsInteger != 0 && tb.Info()&types.IsInteger != 0:
		flo, fhi, _ := intRange(from)
		tlo, thi, _ := intRange(to)
		if flo.Cmp(tlo) >= 0 && fhi.Cmp(thi) <= 0 {
			return v
		}
		return wrapTo(v, to)
	case fb != nil && tb != nil && fb.Info()&types.IsInteger != 0 && tb.Info()&types.IsFloat != 0:
		return app("Real", "to_real", v)
	case fb != nil && tb != nil && fb.Info()&types.IsFloat != 0 && tb.Info()&types.IsInteger != 0:
		r := ex.define("f2i", app("Int", "real$toint", v))
		ex.assume(tTrue, inRange(r, to))
		return r
	case fb != nil && tb != nil && fb.Info()&types.IsFloat != 0 && tb.Info()&types.IsFloat != 0:
		return v
	case tb != nil && tb.Info()&types.IsString != 0:
		if sl, ok := from.(*types.Slice); ok {
			row := sel(ex.get(st, ex.elemsComp(sl.Elem())), app("Ref", "sl$arr", v))
			r := ex.define("str", app("Str", "str$ofbytes", row, app("Int", "sl$off", v), app("Int", "sl$len", v)))
			ex.assume(tTrue, eq(app("Int", "len$Str", r), app("Int", "sl$len", v)))
			ex.assume(tTrue, eq(eq(app("Int", "sl$len", v), intLit(0)), eq(r, T{"str$empty", "Str"})))
			return r
		}
		if fb != nil && fb.Info()&types.IsInteger != 0 {
			return app("Str", "str$ofint", v)
		}
		if fb != nil && fb.Info()&types.IsString != 0 {
			return v
		}
	case fb != nil && fb.Info()&types.IsString != 0:
		if sl, ok := to.(*types.Slice); ok {
			arr := ex.allocRef(st, reach, "s2b")
			comp := ex.elemsComp(sl.Elem())
			ex.set(st, comp, store(ex.get(st, comp), arr, app(arraySort("Int", "Int"), "str$tobytes", v)))
			n := app("Int", "len$Str", v)
			return app("Slice", "mk$Slice", arr, intLit(0), n, n)
		}
	case isRefLike(x.X.Type()) && isRefLike(x.Type()):
		return v
	}
	panic(engineErr("needs-subset", "conversion %s -> %s", x.X.Type(), x.Type()))
}

func (fr *Frame) indexAddr(x *ssa.IndexAddr, reach T, st *State) {
	ex := fr.ex
	i := fr.val(x.Index)
	switch u := x.X.Type().Underlying().(type) {
	case *types.Slice:
		s := fr.val(x.X)
		fr.safety("index", x, reach, and(app("Bool", "<=", intLit(0), i), app("Bool", "<", i, app("Int", "sl$len", s))), "slice index in range: "+x.X.Name()+"["+x.Index.Name()+"]")
		fr.lvals[x] = ex.elemLV(app("Ref", "sl$arr", s), ex.define("ix", app("Int", "+", app("Int", "sl$off", s), i)), u.Elem())
	case *types.Pointer:
		a := u.Elem().Underlying().(*types.Array)
		var ref T
		if lv, ok := fr.lvals[x.X]; ok && lv.kind == "array" {
			ref = lv.ref
		} else {
			ref = fr.val(x.X)
		}
		fr.safety("index", x, reach, and(app("Bool", "<=", intLit(0), i), app("Bool", "<", i, intLit(a.Len()))), "array index in range")
		fr.lvals[x] = ex.elemLV(ref, i, a.Elem())
	default:
		panic(engineErr("needs-subset", "IndexAddr on %s", x.X.Type()))
	}
}

func (fr *Frame) lookup(x *ssa.Lookup, reach T, st *State) {
	ex := fr.ex
	switch u := x.X.Type().Underlying().(type) {
	case *types.Map:
		m, k := fr.val(x.X), fr.val(x.Index)
		has, val, _ := ex.mapComps(u)
		h := and(not(eq(m, tNil)), sel(sel(ex.get(st, has), m), k))
		v := ite(h, sel(sel(ex.get(st, val), m), k), ex.sorts.zero(u.Elem()))
		v = ex.define(fr.vname(x), v)
		if ex.get(st, val).s == val+"$init" {
			fr.assumeLoaded(v, u.Elem(), reach, fr.entry)
		} else {
			fr.assumeLoaded(v, u.Elem(), reach, nil)
		}
		if x.CommaOk {
			fr.tuples[x] = []T{v, ex.define(fr.vname(x)+"_ok", h)}
		} else {
			fr.vals[x] = v
		}
	case *types.Basic: // string index
		s, i := fr.val(x.X), fr.val(x.Index)
		fr.safety("index", x, reach, and(app("Bool", "<=", intLit(0), i), app("Bool", "<", i, app("Int", "len$Str", s))), "string index in range")
		v := ex.define(fr.vname(x), app("Int", "str$at", s, i))
		ex.assume(tTrue, and(app("Bool", "<=", intLit(0), v), app("Bool", "<=", v, intLit(255))))
		fr.vals[x] = v
	default:
		panic(engineErr("needs-subset", "Lookup on %s", x.X.Type()))
	}
}

func (fr *Frame) mapUpdate(x *ssa.MapUpdate, reach T, st *State) {
	ex := fr.ex
	u := x.Map.Type().Underlying().(*types.Map)
	m, k, v := fr.val(x.Map), fr.val(x.Key), fr.val(x.Value)
	fr.safety("nilmap", x, reach, not(eq(m, tNil)), "assignment to entry in nil map")
	has, val, ln := ex.mapComps(u)
	hc, vc, lc := ex.get(st, has), ex.get(st, val), ex.get(st, ln)
	was := sel(sel(hc, m), k)
	ex.set(st, ln, store(lc, m, ite(was, sel(lc, m), app("Int", "+", sel(lc, m), intLit(1)))))
	ex.set(st, has, store(hc, m, store(sel(hc, m), k, tTrue)))
	ex.set(st, val, store(vc, m, store(sel(vc, m), k, v)))
}

const maxAlloc = int64(1) << 47

func (fr *Frame) makeSlice(x *ssa.MakeSlice, reach T, st *State) {
	ex := fr.ex
	ln, cp := fr.val(x.Len), fr.val(x.Cap)
	elem := x.Type().Underlying().(*types.Slice).Elem()
	sz := ex.L.sizes.Sizeof(elem)
	if sz < 1 {
		sz = 1
	}
	fr.safety("make", x, reach, and(app("Bool", "<=", intLit(0), ln), app("Bool", "<=", ln, cp), app("Bool", "<=", cp, intLit(maxAlloc/sz))),
		"makeslice: len/cap non-negative and within the allocator limit")
	arr := ex.allocRef(st, reach, fr.vname(x)+"_arr")
	comp := ex.elemsComp(elem)
	es := ex.sorts.sortOf(elem)
	ex.set(st, comp, store(ex.get(st, comp), arr, ex.constArray("Int", es, ex.sorts.zero(elem))))
	fr.setVal(x, app("Slice", "mk$Slice", arr, intLit(0), ln, cp))
}

func (fr *Frame) sliceInstr(x *ssa.Slice, reach T, st *State) {
	ex := fr.ex
	var lo, hi, max T
	has := func(v ssa.Value) bool { return v != nil }
	if has(x.Low) {
		lo = fr.val(x.Low)
	} else {
		lo = intLit(0)
	}
	switch u := x.X.Type().Underlying().(type) {
	case *types.Slice:
		s := fr.val(x.X)
		ln, cp, off, arr := app("Int", "sl$len", s), app("Int", "sl$cap", s), app("Int", "sl$off", s), app("Ref", "sl$arr", s)
		if has(x.High) {
			hi = fr.val(x.High)
		} else {
			hi = ln
		}
		if has(x.Max) {
			max = fr.val(x.Max)
		} else {
			max = cp
		}
		fr.safety("slice", x, reach, and(app("Bool", "<=", intLit(0), lo), app("Bool", "<=", lo, hi), app("Bool", "<=", hi, max), app("Bool", "<=", max, cp)),
			"slice bounds in range: "+x.X.Name()+"["+optName(x.Low)+":"+optName(x.High)+"]")
		fr.setVal(x, app("Slice", "mk$Slice", arr, app("Int", "+", off, lo), app("Int", "-", hi, lo), app("Int", "-", max, lo)))
	case *types.Basic: // string
		s := fr.val(x.X)
		ln := app("Int", "len$Str", s)
		if has(x.High) {
			hi = fr.val(x.High)
		} else {
			hi = ln
		}
		fr.safety("slice", x, reach, and(app("Bool", "<=", intLit(0), lo), app("Bool", "<=", lo, hi), app("Bool", "<=", hi, ln)), "string slice bounds in range")
		r := ex.define(fr.vname(x), app("Str", "str$sub", s, lo, hi))
		ex.assume(tTrue, implies(and(app("Bool", "<=", intLit(0), lo), app("Bool", "<=", lo, hi), app("Bool", "<=", hi, ln)),
			eq(app("Int", "len$Str", r), app("Int", "-", hi, lo))))
		ex.assume(tTrue, implies(and(eq(lo, intLit(0)), eq(hi, ln)), eq(r, s)))
		ex.emit(fmt.Sprintf("(assert (forall ((k Int)) (! (=> (and (<= 0 k) (< k (- %s %s))) (= (str$at %s k) (str$at %s (+ %s k)))) :pattern ((str$at %s k)))))", hi.s, lo.s, r.s, s.s, lo.s, r.s))
		ex.assume(tTrue, eq(eq(app("Int", "len$Str", r), intLit(0)), eq(r, T{"str$empty", "Str"})))
		fr.vals[x] = r
	case *types.Pointer:
		a := u.Elem().Underlying().(*types.Array)
		var ref T
		if lv, ok := fr.lvals[x.X]; ok && lv.kind == "array" {
			ref = lv.ref
		} else {
			ref = fr.val(x.X)
		}
		n := intLit(a.Len())
		if has(x.High) {
			hi = fr.val(x.High)
		} else {
			hi = n
		}
		if has(x.Max) {
			max = fr.val(x.Max)
		} else {
			max = n
		}
		fr.safety("slice", x, reach, and(app("Bool", "<=", intLit(0), lo), app("Bool", "<=", lo, hi), app("Bool", "<=", hi, max), app("Bool", "<=", max, n)), "array slice bounds in range")
		fr.setVal(x, app("Slice", "mk$Slice", ref, lo, app("Int", "-", hi, lo), app("Int", "-", max, lo)))
	default:
		panic(engineErr("needs-subset", "Slice on %s", x.X.Type()))
	}
}

func optName(v ssa.Value) string {
	if v == nil {
		return ""
	}
	return v.Name()
}

func (fr *Frame) typeAssert(x *ssa.TypeAssert, reach T, st *State) {
	ex := fr.ex
	v := fr.val(x.X)
	var ok, res T
	if _, isI := x.AssertedType.Underlying().(*types.Interface); isI {
		it := x.AssertedType
		if it.Underlying().(*types.Interface).NumMethods() == 0 {
			ok = not(eq(app("Int", "if$typ", v), intLit(0)))
		} else {
			ok = app("Bool", ex.implFn(it), app("Int", "if$typ", v))
		}
		res = ite(ok, v, T{"nil$Iface", "Iface"})
	} else {
		id := ex.registerConcrete(x.AssertedType)
		ok = eq(app("Int", "if$typ", v), intLit(int64(id)))
		res = ite(ok, ex.unIface(v, x.AssertedType), ex.sorts.zero(x.AssertedType))
	}
	ok = ex.define(fr.vname(x)+"_ok", ok)
	if x.CommaOk {
		fr.tuples[x] = []T{ex.define(fr.vname(x), res), ok}
		return
	}
	fr.safety("assert", x, reach, ok, "type assertion succeeds")
	fr.setVal(x, res)
}

func (fr *Frame) rangeStart(x *ssa.Range, reach T, st *State) {
	ex := fr.ex
	m := x.X.Type().Underlying().(*types.Map)
	ks := ex.sorts.sortOf(m.Key())
	vis := ex.comp(fmt.Sprintf("Visited$f%d$%s", fr.id, x.Name()), arraySort(ks, "Bool"))
	ex.set(st, vis, T{fmt.Sprintf("((as const %s) false)", arraySort(ks, "Bool")), arraySort(ks, "Bool")})
}

func (fr *Frame) next(x *ssa.Next, reach T, st *State) {
	ex := fr.ex
	ok := ex.fresh(fr.vname(x)+"_ok", "Bool")
	if x.IsString {
		i := ex.freshOfType(fr.vname(x)+"_i", types.Typ[types.Int], reach, st)
		r := ex.freshOfType(fr.vname(x)+"_r", types.Typ[types.Int32], reach, st)
		fr.tuples[x] = []T{ok, i, r}
		return
	}
	rng := x.Iter.(*ssa.Range)
	mt := rng.X.Type().Underlying().(*types.Map)
	m := fr.val(rng.X)
	has, val, _ := ex.mapComps(mt)
	k := ex.freshOfType(fr.vname(x)+"_k", mt.Key(), reach, st)
	visName := fmt.Sprintf("Visited$f%d$%s", fr.id, rng.Name())
	vis := ex.get(st, visName)
	hasRow := ex.define("hasrow", sel(ex.get(st, has), m))
	ex.assume(reach, implies(ok, and(not(eq(m, tNil)), sel(hasRow, k), not(sel(vis, k)))))
	// when the iteration ends every key present has been visited
	ks := ex.sorts.sortOf(mt.Key())
	ex.emit(fmt.Sprintf("(assert (=> (and %s (not %s)) (forall ((k %s)) (! (=> (select %s k) (select %s k)) :pattern ((select %s k))))))",
		reach.s, ok.s, ks, hasRow.s, vis.s, hasRow.s))
	ex.set(st, visName, ite(ok, store(vis, k, tTrue), vis))
	v := ex.define(fr.vname(x)+"_v", sel(sel(ex.get(st, val), m), k))
	if ex.get(st, val).s == val+"$init" {
		fr.assumeLoaded(v, mt.Elem(), and(reach, ok), fr.entry)
	} else {
		fr.assumeLoaded(v, mt.Elem(), and(reach, ok), nil)
	}
	fr.tuples[x] = []T{ok, k, v}
}

func (fr *Frame) selectInstr(x *ssa.Select, reach T, st *State) {
	ex := fr.ex
	idx := ex.fresh(fr.vname(x)+"_idx", "Int")
	lo := int64(0)
	if !x.Blocking {
		lo = -1
	}
	ex.assume(tTrue, and(app("Bool", "<=", intLit(lo), idx), app("Bool", "<", idx, intLit(int64(len(x.States))))))
	tu := []T{idx, ex.fresh(fr.vname(x)+"_rok", "Bool")}
	for _, s := range x.States {
		if s.Dir == types.RecvOnly {
			tu = append(tu, ex.freshOfType(fr.vname(x)+"_r", chanElem(s.Chan.Type()), reach, st))
		}
	}
	fr.selectHook(x, idx, reach, st)
	fr.tuples[x] = tu
	// `at select N after set g = sel == 0`: sel is the index of the chosen case (-1: default), recvok the comma-ok flag
	fr.ghostAt("select", fr.selOrd[x], "select", "after", reach, st, map[string]Val{
		"sel": {t: idx, typ: types.Typ[types.Int]}, "recvok": {t: tu[1], typ: types.Typ[types.Bool]}})
}

func (fr *Frame) send(x *ssa.Send, reach T, st *State) {
	fr.ghostAt("send", fr.sendOrd[x], "send", "before", reach, st, map[string]Val{
		"sent": {t: fr.val(x.X), typ: x.X.Type()}, "ch": {t: fr.val(x.Chan), typ: x.Chan.Type()}})
	fr.ghostAt("send", fr.sendOrd[x], "send", "after", reach, st, map[string]Val{
		"sent": {t: fr.val(x.X), typ: x.X.Type()}, "ch": {t: fr.val(x.Chan), typ: x.Chan.Type()}})
}

func (fr *Frame) ret(x *ssa.Return, reach T, st *State) {
	var res []T
	for _, r := range x.Results {
		res = append(res, fr.val(r))
	}
	fr.rets = append(fr.rets, retRec{reach: reach, st: st.clone(), results: res, instr: x})
}

// runDefers executes the deferred calls registered so far, last first, each guarded by its armed flag.
func (fr *Frame) runDefers(reach T, st *State) {
	ex := fr.ex
	for i := len(fr.defers) - 1; i >= 0; i-- {
		d := fr.defers[i]
		armed := ex.get(st, d.armed)
		if armed.s == "false" {
			continue
		}
		g := ex.define("deferred", and(reach, armed))
		st2 := st.clone()
		fr.call(d.instr, &d.instr.Call, g, st2)
		merged := ex.mergeStates([]T{armed, not(armed)}, []*State{st2, st})
		st.m = merged.m
	}
}

// guardCheck: `guarded_by T.f mu` - every access to x.f (through a pointer to an object that existed at entry) happens
// with x.mu held: read or write lock for loads, write lock for stores. The access kind is taken from the uses of the
// field address.
func (fr *Frame) guardCheck(x *ssa.FieldAddr, base *LV, reach T, st *State) {
	ex := fr.ex
	if base.kind != "struct" || len(ex.L.contracts.Guarded) == 0 {
		return
	}
	nt, ok := types.Unalias(base.typ).(*types.Named)
	if !ok || nt.Obj().Pkg() == nil {
		return
	}
	stt := base.typ.Underlying().(*types.Struct)
	g, ok := ex.L.contracts.Guarded[nt.Obj().Pkg().Path()+"."+nt.Obj().Name()+"."+stt.Field(x.Field).Name()]
	if !ok {
		return
	}
	mi := -1
	for i := 0; i < stt.NumFields(); i++ {
		if stt.Field(i).Name() == g.Mutex {
			mi = i
		}
	}
	if mi < 0 {
		panic(engineErr("stale-contract", "%s: no field %s in %s", g.Where, g.Mutex, nt.Obj().Name()))
	}
	mref := ex.subRef(base.ref, base.typ, mi)
	isStore, isLoad := false, false
	if refs := x.Referrers(); refs != nil {
		for _, r := range *refs {
			switch u := r.(type) {
			case *ssa.Store:
				if u.Addr == x {
					isStore = true
				}
			case *ssa.UnOp:
				isLoad = true
			}
		}
	}
	gf := func(name string) T {
		d, ok := ex.L.contracts.GhostFields[name]
		if !ok {
			panic(engineErr("stale-contract", "guarded_by needs ghost field %s", name))
		}
		env := &Env{ex: ex, cur: st, old: st, vars: map[string]Val{}, pkgPath: d.PkgPath, callerPkg: ex.pkg}
		comp, _ := env.ghostFieldComp(d)
		return sel(ex.get(st, comp), mref)
	}
	var held T
	mt := stt.Field(mi).Type().String()
	if strings.HasSuffix(mt, "RWMutex") {
		w, r := gf("wheld"), gf("rheld")
		if isStore {
			held = w
		} else {
			held = or(w, app("Bool", ">", r, intLit(0)))
		}
	} else {
		held = gf("held")
	}
	_ = isLoad
	// objects allocated by this very function are not shared yet
	fresh := not(sel(ex.get(fr.entry, ex.allocComp()), base.ref))
	kind := "read"
	if isStore {
		kind = "write"
	}
	props := g.Props
	ex.oblige("lock:"+nt.Obj().Name()+"."+stt.Field(x.Field).Name()+":"+kind, "lock", props, reach, or(fresh, held), ex.pos(instrPos(x)),
		fmt.Sprintf("%s.%s is accessed with %s held (guarded_by, %s)", nt.Obj().Name(), stt.Field(x.Field).Name(), g.Mutex, relPath(g.Where)))
}

// spawnPre: `go f(args)` where f is a closure with a contract: the requires clauses of f are proved at the spawn site,
// with f's parameters bound to the arguments and its captured variables resolved as the locals they are.
func (fr *Frame) spawnPre(x *ssa.Go, reach T, st *State) {
	ex := fr.ex
	var fn *ssa.Function
	switch v := x.Call.Value.(type) {
	case *ssa.MakeClosure:
		fn, _ = v.Fn.(*ssa.Function)
	case *ssa.Function:
		fn = v
	default:
		if ci := fr.findClosure(x.Call.Value); ci != nil {
			fn = ci.fn
		}
	}
	if fn == nil {
		return
	}
	fc := ex.L.contracts.Funcs[fn.String()]
	if fc == nil || fc.Extern || len(fc.Requires) == 0 {
		return
	}
	for i, r := range fc.Requires {
		env := fr.specEnv(st, fr.entry, fr.curBlock, nil)
		env.atInstr = x
		for j, p := range fn.Params {
			if j < len(x.Call.Args) {
				a := x.Call.Args[j]
				if _, isLV := fr.lvals[a]; !isLV {
					env.vars[p.Name()] = Val{t: fr.val(a), typ: a.Type()}
				}
			}
		}
		c := env.evalBool(r)
		ex.oblige(fmt.Sprintf("pre:go:%s.%s@%d", fr.callName[x], clauseName(r, i), fr.callOrd[x]), "pre", r.Props, reach, c, r.where(), r.Text)
	}
}
