#!/bin/bash
# Generator self-test: every toy function named *OK must verify completely; every *Bad must have a refuted obligation.
set -u
cd /verif
out=$(./bin/govc check -repo /verif/selftest/toy -module toy -prop T01 -list -no-evidence 2>&1)
fail=0
for f in $(grep -o 'toy\.[A-Za-z.]*\(OK\|Bad\)#' <<<"$out" | sort -u | tr -d '#'); do
  lines=$(grep -F " $f#" <<<"$out" | grep -v '^VIOLATION')
  if [[ $f == *OK ]]; then
    if grep -qv '^  discharged' <<<"$lines"; then echo "SELFTEST-FAIL $f has undischarged obligations"; fail=1; fi
  else
    if ! grep -q '^  refuted\|^  undecided.*candidate model' <<<"$lines"; then echo "SELFTEST-FAIL $f has no refuted obligation"; fail=1; fi
  fi
done
n=$(grep -c '^  ' <<<"$out")
if [ "$n" -lt 50 ]; then echo "SELFTEST-FAIL too few obligations ($n)"; fail=1; fi
if grep -q 'ENGINE-ERROR' <<<"$out"; then grep 'ENGINE-ERROR' <<<"$out"; fail=1; fi
[ $fail = 0 ] && echo "toy selftest ok ($n obligations)"
exit $fail
