#!/bin/bash
# Must-fail corpus: every patch in selftest/mutants/<PROP>-*.patch is a deliberate property-breaking edit of /repo
# (reverse patches of fix: commits and seeded changes). Each is applied to a scratch copy of /repo's working tree and
# the check must report a VIOLATION naming the expected obligation (first line of the .expect file).
set -u
PROP=${1:?prop}
cd /verif
fail=0
shopt -s nullglob
for p in selftest/mutants/${PROP}-*.patch; do
  exp="${p%.patch}.expect"
  want=$(head -1 "$exp" 2>/dev/null)
  tmp=$(mktemp -d "${TMPDIR:-/tmp}/govc-mut-XXXXXX")
  rsync -a --exclude .git /repo/ "$tmp/"
  if ! (cd "$tmp" && patch -p1 -s < "/verif/$p"); then
    echo "SELFTEST-SKIP $p does not apply to the current tree"; rm -rf "$tmp"; continue
  fi
  out=$(./bin/govc check -repo "$tmp" -prop "$PROP" -no-evidence -no-retry -replays "$tmp/.replays" 2>&1)
  rm -rf "$tmp"
  if grep -q "^VIOLATION property=$PROP .*obligation=[^ ]*$want" <<<"$out"; then
    echo "mutant caught: $p ($want)"
  else
    echo "SELFTEST-FAIL mutant not caught: $p (expected obligation matching '$want')"; echo "$out" | tail -5; fail=1
  fi
done
# the stored seeded changes of this property (produced by fresh sub-agents, confirmed by their demonstration): each must
# make the check report some violation
for d in seeded/${PROP}-*/; do
  [ -n "${SKIP_SEEDS:-}" ] && break
  [ -f "$d/patch.diff" ] || continue
  tmp=$(mktemp -d "${TMPDIR:-/tmp}/govc-seed-XXXXXX")
  rsync -a --exclude .git /repo/ "$tmp/"
  if ! (cd "$tmp" && patch -p1 -s < "/verif/$d/patch.diff"); then
    echo "SELFTEST-SKIP $d does not apply to the current tree"; rm -rf "$tmp"; continue
  fi
  out=$(./bin/govc check -repo "$tmp" -prop "$PROP" -no-evidence -no-retry -replays "$tmp/.replays" 2>&1)
  rm -rf "$tmp"
  if grep -q "^VIOLATION property=$PROP " <<<"$out"; then
    echo "seeded change caught: $d ($(grep -m1 '^VIOLATION' <<<"$out" | sed 's/.*obligation=\([^ ]*\).*/\1/'))"
  elif grep -qx "$(basename "$d")" seeded/KNOWN_NO_VERDICT.txt 2>/dev/null && grep -q "^ENGINE-ERROR" <<<"$out"; then
    echo "seeded change without verdict (listed in seeded/KNOWN_NO_VERDICT.txt): $d ($(grep -m1 '^ENGINE-ERROR' <<<"$out" | cut -c1-120))"
  elif grep -qx "$(basename "$d")" seeded/KNOWN_NOT_CAUGHT.txt 2>/dev/null; then
    echo "seeded change not caught (listed in seeded/KNOWN_NOT_CAUGHT.txt): $d"
  else
    echo "SELFTEST-FAIL seeded change not caught: $d"; echo "$out" | tail -3; fail=1
  fi
done
exit $fail
