//go:build verif

package toy

//@ ghost field res.closedCount int

//@ func absOK
//@   serves T01
//@   ensures result >= 0
//@ func absBad
//@   serves T01
//@   ensures result >= 0

//@ func sumOK
//@   serves T01
//@   requires 0 <= n && n < 1000000
//@   ensures result == 2*n
//@   loop 0 invariant 0 <= i && i <= n && s == 2*i
//@ func sumBad
//@   serves T01
//@   requires 0 <= n && n < 1000000
//@   ensures result == 2*n
//@   loop 0 invariant 0 <= i && i <= n+1 && s == 2*i

//@ func idxOK
//@   serves T01
//@   safe index
//@ func idxBad
//@   serves T01
//@   safe index

//@ func setOK
//@   serves T01
//@   requires n != nil
//@   modifies n.val
//@   ensures n.val == v
//@ func setBad
//@   serves T01
//@   requires n != nil && m != nil
//@   modifies n.val
//@   ensures n.val == v

//@ func (*res).Close
//@   serves T01
//@   requires r != nil
//@   modifies r.open
//@   ensures !r.open
//@ func useOK
//@   serves T01
//@   requires r != nil
//@   modifies r.open
//@   ensures !r.open
//@   ensures fail ==> result != nil
//@ func useBad
//@   serves T01
//@   requires r != nil
//@   modifies r.open
//@   ensures !r.open

//@ func half
//@   serves T01
//@   requires x >= 0
//@   ensures 2*result <= x && x <= 2*result+1
//@ func callOK
//@   serves T01
//@   ensures result >= 0
//@ func callBad
//@   serves T01
//@   ensures result >= 0

//@ func appendOK
//@   serves T01
//@   ensures len(result) == len(s)+1 && result[len(s)] == v
//@   ensures forall i int :: 0 <= i && i < len(s) ==> result[i] == old(s[i])
//@ func appendBad
//@   serves T01
//@   ensures len(result) == len(s)+1 && result[len(s)] == v

//@ func mapOK
//@   serves T01
//@   requires m != nil
//@   modifies m[*]
//@   ensures result == 7 && has(m, k)
//@ func mapBad
//@   serves T01
//@   requires m != nil
//@   modifies m[*]
//@   ensures result == 7

//@ func kindOK
//@   serves T01
//@   ensures typeis(s, *rect) ==> result == 2
//@   ensures typeis(s, sq) ==> result == 1
//@   ensures s == nil ==> result == 0
//@ func kindBad
//@   serves T01
//@   ensures typeis(s, *rect) ==> result == 2

//@ func wrapOK
//@   serves T01
//@   safe slice make
//@   ensures result == nl + vl
//@ func wrapBad
//@   serves T01
//@   safe slice make

//@ func namedOK
//@   serves T01
//@   ensures x < 0 ==> r == -1 && err != nil
//@   ensures x >= 0 ==> r == x && err == nil
//@ func namedBad
//@   serves T01
//@   ensures x < 0 ==> r == -1 && err != nil

//@ func fillOK
//@   serves T01
//@   safe index
//@   modifies b[*]
//@   ensures forall k int :: 0 <= k && k < len(b) ==> b[k] == v
//@   loop 0 invariant forall k int :: 0 <= k && k <= rangeindex && k < len(b) ==> b[k] == v
//@ func fillBad
//@   serves T01
//@   modifies b[*]
//@   ensures forall k int :: 0 <= k && k < len(b) ==> b[k] == v
//@   loop 0 invariant forall k int :: 0 <= k && k <= rangeindex && k < len(b) ==> b[k] == v

//@ func readOK
//@   serves T01
//@   safe index slice make
//@   ensures result1 == nil ==> len(result0) <= 255

//@ func bumpAllOK
//@   serves T01
//@   requires m != nil
//@   requires forall k int :: has(m, k) ==> m[k] != nil
//@   modifies node.val
//@   ensures forall k int :: has(m, k) ==> m[k].val == 1
//@   loop 0 invariant forall k int :: visited(k) ==> m[k].val == 1
//@ func bumpAllBad
//@   serves T01
//@   requires m != nil
//@   requires forall k int :: has(m, k) ==> m[k] != nil
//@   modifies node.val
//@   ensures forall k int :: has(m, k) ==> m[k].val == 1
//@   loop 0 invariant forall k int :: visited(k) ==> m[k].val == 1

//@ func copyOK
//@   serves T01
//@   modifies dst[*]
//@   ensures result == min(len(dst), len(src))
//@   ensures arr(dst) != arr(src) ==> forall k int :: 0 <= k && k < result ==> dst[k] == src[k]

//@ func ptrOK
//@   serves T01
//@   requires p != nil && *p < 1000
//@   modifies *p
//@   ensures *p == old(*p) + 1
//@ func callPtrOK
//@   serves T01
//@   requires n != nil && n.val == 5
//@   modifies n.val
//@   ensures n.val == 6
//@ func callPtrBad
//@   serves T01
//@   requires n != nil && n.val == 5
//@   modifies n.val
//@   ensures n.val == 6

//@ guarded_by reg.m mu T01 reacquire
//@ func (*reg).putOnceOK
//@   serves T01
//@   requires r != nil && r.m != nil && !r.mu.held
//@   modifies r.m[k], r.mu.held
//@   ensures[insert-only-when-absent] result == !old(has(r.m, k)) && !r.mu.held
//@ func (*reg).putOnceBad
//@   serves T01
//@   requires r != nil && r.m != nil && !r.mu.held
//@   modifies r.m[k], r.mu.held
//@   noframe
//@   ensures[insert-only-when-absent] result == !old(has(r.m, k)) && !r.mu.held
//@   ensures[another-key-is-untouched] k != "other" ==> has(r.m, "other") == old(has(r.m, "other"))

//@ ghost var tJoin int
//@ ghost var tSpawn int
//@ func worker
//@   trusted
//@ func joinOK
//@   serves T01
//@   modifies tJoin, tSpawn
//@   at recv all after set tJoin = tJoin + 1
//@   at call all of worker before set tSpawn = tSpawn + 1
//@   ensures[every-worker-joined] tJoin - old(tJoin) == tSpawn - old(tSpawn)
//@ func joinBad
//@   serves T01
//@   modifies tJoin, tSpawn
//@   at recv all after set tJoin = tJoin + 1
//@   at call all of worker before set tSpawn = tSpawn + 1
//@   ensures[every-worker-joined] tJoin - old(tJoin) == tSpawn - old(tSpawn)

//@ func spawnOK$1
//@   serves T01
//@   requires[report-has-room] cap(errc) >= 1
//@ func spawnOK
//@   serves T01
//@ func spawnBad$1
//@   serves T01
//@   requires[report-has-room] cap(errc) >= 1
//@ func spawnBad
//@   serves T01

//@ func dropOK
//@   serves T01
//@   safe slice
//@   requires n > 0
//@   ensures[parameter-inside-old-is-the-entry-value] result <= len(old(b)) && result >= 0
//@   loop 0 invariant len(b) <= len(old(b)) && total == len(old(b))
