module toy

go 1.23
