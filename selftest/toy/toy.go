package toy

import (
	"errors"
	"io"
	"sync"
)

var errBad = errors.New("bad")

func absOK(x int) int {
	if x < 0 {
		if x == -9223372036854775808 {
			return 0
		}
		return -x
	}
	return x
}

func absBad(x int) int {
	if x < 0 {
		return -x // wraps for MinInt
	}
	return x
}

func sumOK(n int) int {
	s := 0
	for i := 0; i < n; i++ {
		s += 2
	}
	return s
}

func sumBad(n int) int {
	s := 0
	for i := 0; i <= n; i++ {
		s += 2
	}
	return s
}

func idxOK(b []byte, i int) byte {
	if i >= 0 && i < len(b) {
		return b[i]
	}
	return 0
}

func idxBad(b []byte, i int) byte {
	if i >= 0 && i <= len(b) {
		return b[i]
	}
	return 0
}

type node struct {
	val  int
	next *node
	cnt  uint32
}

func setOK(n *node, v int) {
	n.val = v
}

func setBad(n *node, m *node, v int) {
	n.val = v
	m.cnt++
}

type res struct{ open bool }

func (r *res) Close() error { r.open = false; return nil }

func useOK(r *res, fail bool) error {
	r.open = true
	defer r.Close()
	if fail {
		return errBad
	}
	return nil
}

func useBad(r *res, fail bool) error {
	r.open = true
	if fail {
		return errBad
	}
	r.Close()
	return nil
}

func half(x int) int { return x / 2 }

func callOK(x int) int {
	if x < 0 {
		return 0
	}
	return half(x)
}

func callBad(x int) int {
	return half(x)
}

func appendOK(s []int, v int) []int {
	return append(s, v)
}

func appendBad(s []int, v int) []int {
	return append(s, v+1)
}

func mapOK(m map[string]int, k string) int {
	m[k] = 7
	return m[k]
}

func mapBad(m map[string]int, k, k2 string) int {
	m[k] = 7
	return m[k2]
}

type shape interface{ Area() int }
type sq struct{ s int }
type rect struct{ w, h int }

func (s sq) Area() int    { return s.s * s.s }
func (r *rect) Area() int { return r.w * r.h }

func kindOK(s shape) int {
	switch s.(type) {
	case sq:
		return 1
	case *rect:
		return 2
	}
	return 0
}

func kindBad(s shape) int {
	switch s.(type) {
	case sq:
		return 1
	case *rect:
		return 1
	}
	return 0
}

func wrapOK(nl, vl uint32) int {
	n := uint64(nl) + uint64(vl)
	b := make([]byte, n)
	_ = b[:nl]
	return len(b)
}

func wrapBad(nl, vl uint32) int {
	b := make([]byte, int(nl+vl))
	_ = b[:nl]
	return len(b)
}

func namedOK(x int) (r int, err error) {
	defer func() {
		if err != nil {
			r = -1
		}
	}()
	if x < 0 {
		return 5, errBad
	}
	return x, nil
}

func namedBad(x int) (r int, err error) {
	defer func() {
		if err == nil {
			r = -1
		}
	}()
	if x < 0 {
		return 5, errBad
	}
	return x, nil
}

func fillOK(b []byte, v byte) {
	for i := range b {
		b[i] = v
	}
}

func fillBad(b []byte, v byte) {
	for i := range b {
		if i != 3 {
			b[i] = v
		}
	}
}

func readOK(r io.Reader) ([]byte, error) {
	h := make([]byte, 4)
	if _, err := io.ReadFull(r, h); err != nil {
		return nil, err
	}
	n := int(h[0])
	p := make([]byte, n)
	if _, err := io.ReadFull(r, p); err != nil {
		return nil, err
	}
	return p[:n], nil
}

func bumpAllOK(m map[int]*node) {
	for _, n := range m {
		n.val = 1
	}
}

func bumpAllBad(m map[int]*node) {
	for k, n := range m {
		if k != 5 {
			n.val = 1
		}
	}
}

func copyOK(dst, src []byte) int {
	return copy(dst, src)
}

func ptrOK(p *int) {
	*p = *p + 1
}

func callPtrOK(n *node) {
	ptrOK(&n.val)
}

func callPtrBad(n *node) {
	ptrOK(&n.val)
	ptrOK(&n.val)
}

// ---- engine features added in session 2: re-acquisition, recv anchors, spawn preconditions, channel capacity,
// map-update anchors, parameters inside old().

type reg struct {
	mu sync.Mutex
	m  map[string]int
}

func (r *reg) putOnceOK(k string, v int) bool {
	r.mu.Lock()
	defer r.mu.Unlock()
	if _, dup := r.m[k]; dup {
		return false
	}
	r.m[k] = v
	return true
}

func (r *reg) putOnceBad(k string, v int) bool {
	r.mu.Lock()
	_, dup := r.m[k]
	r.mu.Unlock()
	if dup {
		return false
	}
	r.mu.Lock()
	defer r.mu.Unlock()
	r.m[k] = v
	return true
}

func joinOK() {
	done := make(chan bool, 2)
	go worker(done)
	go worker(done)
	<-done
	<-done
}

func joinBad() {
	done := make(chan bool, 2)
	go worker(done)
	go worker(done)
	<-done
}

func worker(done chan<- bool) { done <- true }

func spawnOK() {
	errc := make(chan error, 1)
	go func() { errc <- nil }()
}

func spawnBad() {
	errc := make(chan error)
	go func() { errc <- nil }()
}

func dropOK(b []byte, n int) int {
	total := len(b)
	for len(b) > n {
		b = b[n:]
	}
	return total - len(b)
}
