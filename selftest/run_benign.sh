#!/bin/bash
# Must-pass corpus: property-preserving edits (extra log lines, an extracted helper, hoisted locals, a named temporary).
# Each patch in selftest/benign/ is applied to a scratch copy of /repo; the check of the property must still discharge
# everything (no VIOLATION, no ENGINE-ERROR): the machinery must not alarm on harmless refactors.
set -u
PROP=${1:?prop}
cd /verif
fail=0
shopt -s nullglob
for p in selftest/benign/*.patch; do
  tmp=$(mktemp -d "${TMPDIR:-/tmp}/govc-benign-XXXXXX")
  rsync -a --exclude .git /repo/ "$tmp/"
  if ! (cd "$tmp" && patch -p1 -s < "/verif/$p"); then echo "SELFTEST-SKIP $p does not apply to the current tree"; rm -rf "$tmp"; continue; fi
  out=$(./bin/govc check -repo "$tmp" -prop "$PROP" -no-evidence -replays "$tmp/.replays" 2>&1)
  rm -rf "$tmp"
  if grep -q "^VIOLATION\|^ENGINE-ERROR" <<<"$(grep -v stale-baseline <<<"$out")"; then
    echo "SELFTEST-FAIL benign edit raised an alarm: $p"; grep "^VIOLATION\|^ENGINE-ERROR" <<<"$out" | grep -v stale-baseline | head -3; fail=1
  else
    echo "benign edit stays silent: $p"
  fi
done
exit $fail
