#!/usr/bin/env python3
"""Confirm a sub-agent's seeded change myself: in the scratch worktree /tmp/seed-<P>, the demonstration must fail with
the patch applied and pass without it. On success the change is stored as /verif/seeded/<P>-<V>/."""
import sys,re,subprocess,os,json,shutil
P,V=sys.argv[1],sys.argv[2]
PFX=sys.argv[3] if len(sys.argv)>3 else 'seed'
SV=sys.argv[4] if len(sys.argv)>4 else V   # variant letter under which the change is stored
wt=f'/tmp/{PFX}-{P}'; out=f'/tmp/{PFX}-{P}-out/{V}'
env=dict(os.environ,GOFLAGS='-mod=mod',GOPROXY='off',GOSUMDB='off',GOTOOLCHAIN='local')
head=''.join(open(f'{out}/demo_test.go').readlines()[:6])
line=[l for l in head.split('\n') if 'go test' in l]
m=re.search(r"-run\s+'?([A-Za-z0-9_|^$]+)'?",line[0]) if line else None
if not m: print('cannot parse demo header',head); sys.exit(2)
run=m.group(1)
cand=[t.rstrip("'") for t in line[0].split() if t.rstrip("'")=='.' or t.startswith('./')]
target=cand[-1] if cand else '.' 
cd=re.search(r"cd (\S+) &&",head)
if cd and target=='.': target='./'+cd.group(1).strip('/')+'/'
d=os.path.normpath(os.path.join(wt,target))
def sh(c,**k): return subprocess.run(c,shell=True,cwd=wt,env=env,capture_output=True,text=True,**k)
def reset():
    sh('git checkout -- . && git clean -fdq'); sh('find . -name zz_contracts_verif.go -delete')
def rundemo():
    shutil.copy(f'{out}/demo_test.go',os.path.join(d,'zz_seed_demo_test.go'))
    race='-race ' if ' -race' in ' '.join(line) else ''
    r=sh(f"go test {race}-vet=off -count=1 -timeout 300s -run '{run}' {target}")
    os.remove(os.path.join(d,'zz_seed_demo_test.go'))
    return r.returncode,(r.stdout+r.stderr)[-1500:]
reset()
rc0,o0=rundemo()
a=sh(f'git apply {out}/patch.diff')
if a.returncode: print('patch does not apply',a.stderr); sys.exit(2)
b=sh('go build ./...')
rc1,o1=rundemo()
reset()
ok = rc0==0 and rc1!=0 and b.returncode==0
print(f'{P} {V}->{SV}: unchanged rc={rc0} changed rc={rc1} build={b.returncode} -> {"CONFIRMED" if ok else "NOT CONFIRMED"}')
if not ok: print(o0[-600:],'\n---\n',o1[-600:]); sys.exit(1)
dst=f'/verif/seeded/{P}-{SV}'; os.makedirs(dst,exist_ok=True)
for f in ('patch.diff','demo_test.go','demo_output.txt','notes.md'):
    if os.path.exists(f'{out}/{f}'): shutil.copy(f'{out}/{f}',dst)
meta={'property':P,'variant':SV,'demo_run':run,'demo_target':target,
 'confirmed_by':'tools/confirm_seed.py: demonstration passes on the unchanged scratch worktree and fails with patch.diff applied; go build ./... succeeds with the patch (the full suite was run by the sub-agent, log tail in notes.md)',
 'demo_tail_changed':o1[-800:]}
mp=f'{dst}/meta.json'
if os.path.exists(mp):
    old=json.load(open(mp)); old.update(meta); meta=old
json.dump(meta,open(mp,'w'),indent=1)
