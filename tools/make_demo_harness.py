#!/usr/bin/env python3
"""For every function whose obligations were violated by a stored seeded change and that has no hand-written replay
harness, reuse the sub-agent's demonstration test as the replay: replay/<fn>.demo.go.tmpl is the demonstration verbatim,
replay/<fn>.go.tmpl drives it and prints REPLAY-CONFIRMED when it fails on the tree under check."""
import re,os,sys,json
res={}
for l in open('/verif/seeded/RESULTS.txt'):
    m=re.match(r'(\S+) CAUGHT \(\d+\) VIOLATION property=\S+ obligation=([^#\s]+)#',l)
    if m: res[m.group(1)]=m.group(2)
made=0
for seed,fn in sorted(res.items()):
    short=fn.replace('/','_')
    tmpl=f'/verif/replay/{short}.go.tmpl'
    if os.path.exists(tmpl): continue
    demo=f'/verif/seeded/{seed}/demo_test.go'
    meta=json.load(open(f'/verif/seeded/{seed}/meta.json'))
    src=open(demo).read()
    pm=re.search(r'^package (\w+)',src,re.M)
    tests=re.findall(r'^func (Test\w+)\(t \*testing\.T\)',src,re.M)
    if not pm or not tests: continue
    # the demo must live in the package directory of the function
    pkgdir=meta['demo_target'].strip('./') or '.'
    fnpkg=short.split('.')[0].replace('_','/')
    fnpkg='.' if fnpkg=='martian' else fnpkg
    if pkgdir!=fnpkg: continue
    if 'TestMain' in src: continue
    calls='\n'.join(f'\tif !t.Run("{t}", {t}) {{\n\t\tfailed = append(failed, "{t}")\n\t}}' for t in tests)
    wrapper=f'''package {pm.group(1)}

// govc replay harness for {fn}: drives the demonstration stored with the seeded change {seed}
// (seeded/{seed}/demo_test.go, injected next to this file). The demonstration passes on a tree on which the property
// holds; when it fails on the tree under check, the violation reported by the verifier is confirmed on the real code.

import (
	"fmt"
	"testing"
)

func TestGovcReplay(t *testing.T) {{
	var failed []string
{calls}
	if len(failed) > 0 {{
		fmt.Printf("REPLAY-CONFIRMED the stored demonstration for this clause fails on this tree: %v\\n", failed)
	}}
}}
'''
    open(tmpl,'w').write(wrapper)
    open(f'/verif/replay/{short}.demo.go.tmpl','w').write(src)
    made+=1; print('harness from',seed,'for',fn)
print(made,'harnesses written')
