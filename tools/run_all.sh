#!/bin/bash
# runs the quick check of every claimed property on the current tree, prints one line each
cd /verif
for p in $(python3 -c "import json;print(' '.join(c['property_id'] for c in json.load(open('MANIFEST.json'))['checks']))"); do
  s=$(date +%s)
  out=$(./check $p ${1:-quick} 2>&1); rc=$?
  echo "$p rc=$rc $(( $(date +%s)-s ))s $(echo "$out" | grep -E "^C[0-9]+:" | tail -1) $(echo "$out" | grep -c '^VIOLATION') violations $(echo "$out" | grep -E '^ENGINE-ERROR|SELFTEST-FAIL' | head -2)"
done
