#!/bin/bash
# usage: tools/try_seed.sh <PROP> <patch.diff> [quick|thorough]  - applies a seeded change to /repo, runs the check, restores /repo
P=$1; F=$2; T=${3:-quick}
cd /verif
if [ -n "$(git -C /repo status --porcelain)" ]; then echo "REFUSED: /repo has uncommitted changes (commit them first; this script restores the working tree)"; exit 4; fi
if ! git -C /repo apply "$F"; then echo "PATCH-DOES-NOT-APPLY $F"; exit 3; fi
trap 'git -C /repo checkout -- . ; git -C /repo clean -fdq' EXIT
./check "$P" "$T" 2>&1 | grep -E "^(VIOLATION|KNOWN-FINDING|ENGINE-ERROR|C[0-9]+:)|SELFTEST-FAIL" | cut -c1-400
echo "exit=${PIPESTATUS[0]}"
