#!/usr/bin/env python3
"""Generates /verif/MANIFEST.json from /verif/props/*.json (one file per claimed property) and
/verif/props/not_applicable.json. Keeps the manifest valid by construction."""
import json, glob, os, subprocess
V = '/verif'
ids = [json.loads(l)['id'] for l in open(f'{V}/properties.jsonl')]
claimed = {}
for p in sorted(glob.glob(f'{V}/props/C*.json')):
    d = json.load(open(p)); claimed[os.path.basename(p)[:-5]] = d
na = json.load(open(f'{V}/props/not_applicable.json')) if os.path.exists(f'{V}/props/not_applicable.json') else {}
hooks = subprocess.run(['git', '-C', '/repo', 'log', '--format=%H %s'], capture_output=True, text=True).stdout.splitlines()
hook_commits = [l.split()[0] for l in hooks if l.split(' ', 1)[1].startswith(('verif hooks', 'verif:'))]
checks = []
for pid in ids:
    if pid not in claimed: continue
    d = claimed[pid]
    checks.append({
        'property_id': pid,
        'quick_cmd': f'./check {pid} quick',
        'thorough_cmd': f'./check {pid} thorough',
        'evidence_file': f'/verif/evidence/{pid}.json',
        'replay_cmd_template': './check ' + pid + ' quick   # re-generates the failed obligation; the replay file {path} holds the obligation, the solver model and the go test replay command',
        'engine': 'govc',
        'level_claimed': {'category': 'proof', 'text': d['level_text'], 'design_ref': d.get('design_ref', 'DESIGN.md section 8 / ' + pid)},
        'level_note': d['level_note'],
        'technique': d.get('technique', 'contract-based deductive verification: VCs generated from go/ssa of the real functions, contracts as //@ comments, discharged by z3/cvc5'),
    })
m = {
    'version': 1,
    'setup_cmd': 'cd /verif/govc && GOFLAGS=-mod=mod GOPROXY=off GOSUMDB=off GOTOOLCHAIN=local go build -o /verif/bin/govc .',
    'hooks': {
        'guard': 'verif',
        'enable': 'go/packages is run with -tags=verif so that /repo/<pkg>/zz_contracts_verif.go (comment-only contract files) are parsed; they add no code',
        'baseline_off_cmd': 'cd /repo && GOFLAGS=-mod=mod GOPROXY=off GOSUMDB=off go test -vet=off -count=1 ./...',
        'source_commits': hook_commits,
        'add_only': True,
    },
    'engines': [{'name': 'govc', 'path': '/verif/govc', 'serves_properties': [c['property_id'] for c in checks],
                 'kind_free_text': 'verification-condition generator for Go written for this task: go/ssa of the real functions + //@ contracts -> SMT-LIB, discharged by z3 4.8.12 / z3 5.1.0 / cvc5 raced per obligation; counter-models replayed on the real code with go test -overlay'}],
    'checks': checks,
    'notes': 'See DESIGN.md. Exit 2 of a check means ENGINE-ERROR (contract stale or construct outside the translated subset), never a verdict.',
    'not_applicable': [{'property_id': pid, 'reason': na.get(pid, 'no function-level contract within reach of the generator has been built for this property in this session; see DESIGN.md section 9')} for pid in ids if pid not in claimed],
}
json.dump(m, open(f'{V}/MANIFEST.json', 'w'), indent=1)
print('claimed:', [c['property_id'] for c in checks])
