#!/bin/bash
# usage: runseed.sh PROP SEEDNAME  - applies /verif/seeded/SEEDNAME/patch.diff to a copy of /tmp/r2repo and runs the check
P=$1; S=$2
tmp=$(mktemp -d /tmp/r2seed-XXXXXX)
rsync -a /tmp/r2repo/ "$tmp/"
(cd "$tmp" && patch -p1 -s < /verif/seeded/$S/patch.diff) || { echo PATCH-FAIL; rm -rf "$tmp"; exit 3; }
/verif/bin/govc check -repo "$tmp" -prop "$P" -no-evidence -no-retry -replays "$tmp/.replays" 2>&1 | grep -E "^(VIOLATION|ENGINE-ERROR|C[0-9]+:)" | grep -v stale-baseline | sed 's/replay=[^ ]* //' | cut -c1-230 | head -${3:-5}
rm -rf "$tmp"
