#!/bin/bash
# Every replay harness must stay silent on the unchanged tree (no REPLAY-CONFIRMED): runs each template as an overlay test.
export GOFLAGS=-mod=mod GOPROXY=off GOSUMDB=off GOTOOLCHAIN=local
cd /repo
fail=0
for t in /verif/replay/*.go.tmpl; do
  case "$t" in *.demo.go.tmpl) continue;; esac
  pkg=$(grep -m1 '^package ' "$t" | awk '{print $2}')
  base=$(basename "$t" .go.tmpl)
  rel=$(echo "$base" | sed 's/\..*//; s/_/\//g'); [ "$rel" = martian ] && rel=.
  [ -d "$rel" ] || { echo "SKIP $base (dir $rel)"; continue; }
  ov=$(mktemp /tmp/ov-XXXXXX.json)
  demo="${t%.go.tmpl}.demo.go.tmpl"
  if [ -f "$demo" ]; then
    echo "{\"Replace\": {\"/repo/$rel/zz_govc_replay_test.go\": \"$t\", \"/repo/$rel/zz_govc_demo_test.go\": \"$demo\"}}" | sed 's|/repo/\./|/repo/|g' > "$ov"
  else
    echo "{\"Replace\": {\"/repo/$rel/zz_govc_replay_test.go\": \"$t\"}}" | sed 's|/repo/\./|/repo/|' > "$ov"
  fi
  flags=$(grep -m1 '^// govc-flags:' "$t" | sed 's|// govc-flags:||')
  out=$(GOVC_MODEL=/nonexistent GOVC_OBLIGATION= go test -overlay "$ov" -vet=off -count=1 -timeout 120s $flags -run '^TestGovcReplay$' ./$rel 2>&1)
  rm -f "$ov"
  if grep -q "REPLAY-CONFIRMED\|DATA RACE" <<<"$out"; then echo "HARNESS-ALARM $base"; echo "$out" | grep -m3 "REPLAY-CONFIRMED\|DATA RACE"; fail=1
  elif grep -q "^ok\|^PASS" <<<"$out"; then echo "silent: $base"
  else echo "HARNESS-PROBLEM $base"; echo "$out" | tail -5; fail=1; fi
done
exit $fail
