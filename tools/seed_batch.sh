#!/bin/bash
# Runs every stored seeded change (/verif/seeded/<P>-<V>/patch.diff) against the quick check of its property, on a scratch
# copy of /repo and a snapshot of /verif, and prints one line per seed. Output: /verif/seeded/RESULTS.txt
set -u
export GOFLAGS=-mod=mod GOPROXY=off GOSUMDB=off GOTOOLCHAIN=local
SNAP=$(mktemp -d /tmp/verif-snap-XXXXXX)
rsync -a --exclude .git --exclude replays /verif/ "$SNAP/"
OUT=/verif/seeded/RESULTS${2:-}.txt
: > "$OUT.tmp"
PAT=${1:-C*-*}
for d in /verif/seeded/$PAT/; do
  n=$(basename "$d"); P=${n%-*}
  tmp=$(mktemp -d /tmp/seedrepo-XXXXXX)
  rsync -a --exclude .git /repo/ "$tmp/"
  if ! (cd "$tmp" && patch -p1 -s < "$d/patch.diff"); then echo "$n PATCH-DOES-NOT-APPLY" >> "$OUT.tmp"; rm -rf "$tmp"; continue; fi
  out=$("$SNAP/bin/govc" check -repo "$tmp" -verif "$SNAP" -prop "$P" -no-evidence -no-retry -replays "$tmp/.replays" 2>&1); rc=$?
  rm -rf "$tmp"
  first=$(echo "$out" | grep -m1 '^VIOLATION' | sed 's/replay=[^ ]* //' | cut -c1-230)
  eng=$(echo "$out" | grep -m1 '^ENGINE-ERROR' | grep -v stale-baseline | cut -c1-160)
  nv=$(echo "$out" | grep -c '^VIOLATION')
  if [ $nv -gt 0 ]; then echo "$n CAUGHT ($nv) $first" >> "$OUT.tmp"; elif [ -n "$eng" ]; then echo "$n NO-VERDICT $eng" >> "$OUT.tmp"; else echo "$n MISSED rc=$rc" >> "$OUT.tmp"; fi
done
rm -rf "$SNAP"
mv "$OUT.tmp" "$OUT"
cat "$OUT"
