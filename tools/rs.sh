#!/bin/bash
# usage: rs.sh SEED...   (sync /repo -> /tmp/r2repo first)
rsync -a --delete --exclude .git /repo/ /tmp/r2repo/
for s in "$@"; do echo "== $s"; /verif/tools/runseed.sh ${s%-*} $s 3; done
