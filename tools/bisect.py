#!/usr/bin/env python3
"""bisect.py <query.smt2>: finds the first assertion of the prefix that makes (prefix + reach) unsatisfiable."""
import sys,subprocess
lines=open(sys.argv[1]).read().split('\n')
end=[i for i,l in enumerate(lines) if l.startswith('; ---- obligation')][0]
goal=lines[end+1]
asserts=[i for i in range(end) if lines[i].startswith('(assert')]
def check(n):
    keep=set(asserts[:n])
    body=[l for i,l in enumerate(lines[:end]) if not l.startswith('(assert') or i in keep]+[goal,'(check-sat)']
    open('/tmp/bis.smt2','w').write('\n'.join(body))
    return subprocess.run(['z3','-T:10','/tmp/bis.smt2'],capture_output=True,text=True).stdout.split('\n')[0]
print('all:',check(len(asserts)),'none:',check(0))
lo,hi=0,len(asserts)
while hi-lo>1:
    mid=(lo+hi)//2
    if check(mid)=='unsat': hi=mid
    else: lo=mid
print(hi, lines[asserts[hi-1]][:900])
